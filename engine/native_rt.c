/*
 * Native implementation of the harness API (symx.h): replays one concrete
 * input vector, produced by the solver, against a native build of the same
 * harness and the real neatvi units (ASan/UBSan/MSan or plain).
 *
 * vector file ($SYMX_VEC): one "name value" pair per line, in the order the
 * path consumed its symbolic inputs.
 * exit status: 0 all assertions held, 1 an assertion failed, 2 an assumption
 * failed (vector outside the harness's domain), 3 replay diverged.
 */
#include <stdarg.h>
#include <stdio.h>
#include <stdlib.h>
#include <string.h>
#include <unistd.h>
#include <sys/wait.h>
#include "symx.h"
#include "env.h"

#define NVEC	65536
static char vname[NVEC][24];
static long vval[NVEC];
static int vn, vpos, failed;

static void load(void)
{
	char *p = getenv("SYMX_VEC");
	FILE *f;
	if (!p || !(f = fopen(p, "r")))
		return;
	while (vn < NVEC && fscanf(f, "%23s %ld", vname[vn], &vval[vn]) == 2)
		vn++;
	fclose(f);
}

static long next(const char *name)
{
	if (vpos >= vn && failed) {
		printf("DONE failed=1 (vector ends after the failed assertion)\n");
		fflush(stdout);
		_exit(1);
	}
	if (vpos >= vn) {
		printf("REPLAY-DIVERGED input %d (%s) not in vector\n", vpos, name);
		fflush(stdout);
		_exit(3);
	}
	if (strncmp(vname[vpos], name, 23)) {
		printf("REPLAY-DIVERGED input %d is %s, vector has %s\n", vpos, name, vname[vpos]);
		fflush(stdout);
		_exit(3);
	}
	return vval[vpos++];
}

unsigned char symx_u8(const char *name) { return (unsigned char) next(name); }
int symx_i32(const char *name) { return (int) next(name); }
void symx_assume(int cond)
{
	if (!cond) {
		printf("ASSUME-FAILED\n");
		fflush(stdout);
		_exit(2);
	}
}
void symx_assert(int cond, const char *label)
{
	if (!cond) {
		printf("ASSERT-FAILED %s\n", label);
		fflush(stdout);
		failed = 1;
	}
}
int symx_conc(int v) { return v; }
void symx_reach(const char *label) { printf("REACH %s\n", label); }
void symx_note(const char *msg) { printf("NOTE %s\n", msg); }
void symx_observe(const char *name, long v) { printf("OBS %s %ld\n", name, v); }
void symx_observe_mem(const char *name, const void *p, long n)
{
	long i;
	printf("OBS %s ", name);
	for (i = 0; i < n; i++)
		printf("%02x", ((unsigned char *) p)[i]);
	printf("\n");
}
int symx_max_depth(const char *fn) { return 0; }
void symx_reset_depth(const char *fn) { }

void symx_isolated(void (*fn)(void *out), void *out, long n)
{
	int fds[2], st = 0, cf = 0;
	pid_t pid;
	long got = 0, k;
	fflush(stdout);
	if (pipe(fds))
		_exit(3);
	pid = fork();
	if (pid == 0) {
		close(fds[0]);
		fn(out);
		fflush(stdout);
		/* tell the parent how many inputs were consumed and whether an assertion failed */
		if (write(fds[1], &vpos, sizeof(vpos)) < 0 || write(fds[1], &failed, sizeof(failed)) < 0)
			_exit(3);
		for (got = 0; got < n; got += k)
			if ((k = write(fds[1], (char *) out + got, n - got)) <= 0)
				_exit(3);
		_exit(0);
	}
	close(fds[1]);
	if (read(fds[0], &vpos, sizeof(vpos)) != sizeof(vpos) || read(fds[0], &cf, sizeof(cf)) != sizeof(cf)) {
		waitpid(pid, &st, 0);
		printf("ISOLATED-RUN-DIED status=%d\n", st);
		fflush(stdout);
		_exit(WIFSIGNALED(st) ? 128 + WTERMSIG(st) : (WEXITSTATUS(st) ? WEXITSTATUS(st) : 4));
	}
	failed |= cf;
	for (got = 0; got < n; got += k)
		if ((k = read(fds[0], (char *) out + got, n - got)) <= 0)
			break;
	close(fds[0]);
	waitpid(pid, &st, 0);
}

int env_printf(const char *fmt, ...)
{
	char buf[4096];
	va_list ap;
	int n;
	va_start(ap, fmt);
	n = vsnprintf(buf, sizeof(buf), fmt, ap);
	va_end(ap);
	env_out(buf, n < (int) sizeof(buf) ? n : (int) sizeof(buf) - 1);
	return n;
}

void harness(void);
int main(void)
{
	setvbuf(stdout, NULL, _IOLBF, 0);
	load();
	harness();
	printf("DONE failed=%d consumed=%d of %d\n", failed, vpos, vn);
	return failed;
}
