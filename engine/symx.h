#ifndef SYMX_H
#define SYMX_H
/* harness API: implemented by the symbolic engine (engine/symx.py) and, for
 * native replay of a concrete input vector, by engine/native_rt.c */
unsigned char symx_u8(const char *name);	/* fresh symbolic byte */
int symx_i32(const char *name);			/* fresh symbolic int */
void symx_assume(int cond);			/* cut the path unless cond */
void symx_assert(int cond, const char *label);	/* the solver must refute !cond */
int symx_conc(int v);				/* fork on every feasible value of v */
void symx_reach(const char *label);		/* reachability witness counter */
void symx_note(const char *msg);
void symx_observe(const char *name, long v);	/* recorded per path; compared with the native run */
void symx_observe_mem(const char *name, const void *p, long n);
int symx_max_depth(const char *fn);		/* most live frames of fn on this path (engine only) */
void symx_reset_depth(const char *fn);
/* run fn(out) on a private copy of all global and heap state; only out[0..n) survives */
void symx_isolated(void (*fn)(void *out), void *out, long n);
#endif
