/* C-locale libc models used by the symbolic executor (compiled to IR with the code under test) */
#include <stddef.h>
size_t strlen(const char *s) { size_t n = 0; while (s[n]) n++; return n; }
char *strchr(const char *s, int c) { for (;; s++) { if (*s == (char) c) return (char *) s; if (!*s) return 0; } }
char *strrchr(const char *s, int c) { const char *r = 0; for (;; s++) { if (*s == (char) c) r = s; if (!*s) return (char *) r; } }
int strcmp(const char *a, const char *b) { while (*a && *a == *b) a++, b++; return (unsigned char) *a - (unsigned char) *b; }
int strncmp(const char *a, const char *b, size_t n) { while (n && *a && *a == *b) a++, b++, n--; return n ? (unsigned char) *a - (unsigned char) *b : 0; }
char *strcpy(char *d, const char *s) { char *r = d; while ((*d++ = *s++)) ; return r; }
char *strcat(char *d, const char *s) { char *r = d; while (*d) d++; while ((*d++ = *s++)) ; return r; }
char *strstr(const char *h, const char *n) { size_t i; if (!*n) return (char *) h; for (; *h; h++) { for (i = 0; n[i] && h[i] == n[i]; i++) ; if (!n[i]) return (char *) h; } return 0; }
int isdigit(int c) { return c >= '0' && c <= '9'; }
int islower(int c) { return c >= 'a' && c <= 'z'; }
int isupper(int c) { return c >= 'A' && c <= 'Z'; }
int isalpha(int c) { return islower(c) || isupper(c); }
int isalnum(int c) { return isalpha(c) || isdigit(c); }
int isspace(int c) { return c == ' ' || (c >= '\t' && c <= '\r'); }
int isprint(int c) { return c >= 0x20 && c <= 0x7e; }
int tolower(int c) { return isupper(c) ? c + 32 : c; }
int toupper(int c) { return islower(c) ? c - 32 : c; }
int abs(int x) { return x < 0 ? -x : x; }
long strtol(const char *s, char **end, int base) {
	long v = 0; int neg = 0; const char *s0 = s; int any = 0;
	while (isspace((unsigned char) *s)) s++;
	if (*s == '-' || *s == '+') neg = *s++ == '-';
	while (isdigit((unsigned char) *s)) { v = v * 10 + (*s++ - '0'); any = 1; }
	if (end) *end = (char *) (any ? s : s0);
	return neg ? -v : v;
}
int atoi(const char *s) { return (int) strtol(s, 0, 10); }
int memcmp(const void *a, const void *b, size_t n) { const unsigned char *x = a, *y = b; for (; n; n--, x++, y++) if (*x != *y) return *x - *y; return 0; }
char *stpcpy(char *d, const char *s) { while ((*d = *s)) d++, s++; return d; }
void *memchr(const void *s, int c, size_t n) { const unsigned char *p = s; for (; n; n--, p++) if (*p == (unsigned char) c) return (void *) p; return 0; }
int isxdigit(int c) { return isdigit(c) || (c >= 'a' && c <= 'f') || (c >= 'A' && c <= 'F'); }
int ispunct(int c) { return isprint(c) && !isalnum(c) && c != ' '; }
int iscntrl(int c) { return (c >= 0 && c < 0x20) || c == 0x7f; }
size_t strspn(const char *s, const char *a) { size_t n = 0; while (s[n] && strchr(a, s[n])) n++; return n; }
size_t strcspn(const char *s, const char *r) { size_t n = 0; while (s[n] && !strchr(r, s[n])) n++; return n; }
char *strpbrk(const char *s, const char *a) { for (; *s; s++) if (strchr(a, *s)) return (char *) s; return 0; }
char *strncpy(char *d, const char *s, size_t n) { size_t i = 0; for (; i < n && s[i]; i++) d[i] = s[i]; for (; i < n; i++) d[i] = 0; return d; }
char *strncat(char *d, const char *s, size_t n) { char *r = d; while (*d) d++; while (n-- && *s) *d++ = *s++; *d = 0; return r; }
size_t strnlen(const char *s, size_t n) { size_t i = 0; while (i < n && s[i]) i++; return i; }
void *malloc(size_t);
char *strdup(const char *s) { char *r = malloc(strlen(s) + 1); return r ? strcpy(r, s) : 0; }
char *strndup(const char *s, size_t n) { size_t l = strnlen(s, n); char *r = malloc(l + 1); if (r) { size_t i; for (i = 0; i < l; i++) r[i] = s[i]; r[l] = 0; } return r; }
void *memrchr(const void *s, int c, size_t n) { const unsigned char *p = s; while (n--) if (p[n] == (unsigned char) c) return (void *) (p + n); return 0; }
int isblank(int c) { return c == ' ' || c == '\t'; }
int isgraph(int c) { return c > 0x20 && c <= 0x7e; }
unsigned long strtoul(const char *s, char **end, int base) { return (unsigned long) strtol(s, end, base); }
int strcasecmp(const char *a, const char *b) { while (*a && tolower((unsigned char) *a) == tolower((unsigned char) *b)) a++, b++; return tolower((unsigned char) *a) - tolower((unsigned char) *b); }
int strncasecmp(const char *a, const char *b, size_t n) { while (n && *a && tolower((unsigned char) *a) == tolower((unsigned char) *b)) a++, b++, n--; return n ? tolower((unsigned char) *a) - tolower((unsigned char) *b) : 0; }
void *memccpy(void *d, const void *s, int c, size_t n) { unsigned char *p = d; const unsigned char *q = s; while (n--) { *p++ = *q; if (*q++ == (unsigned char) c) return p; } return 0; }
int bcmp(const void *a, const void *b, size_t n) { return memcmp(a, b, n); }

/* errno of the interpreted program */
static int model_errno;
int *__errno_location(void) { return &model_errno; }
