#ifndef ENV_H
#define ENV_H
/* interface of the environment model (engine/env.c) for harnesses */
#define ENV_INSZ	8192
#define ENV_OUTSZ	16384
#define ENV_TTYSZ	(1 << 17)
#define ENV_NFILES	20
#define ENV_NFD		12
#define ENV_NFAULT	16
#define ENV_LOGSZ	256
#define ENV_NMARK	8
#define ENV_NAMESZ	1100	/* longer paths: ENAMETOOLONG */
#define ENV_OK		0
#define ENV_FAIL	1
#define ENV_SHORT	2

struct efile {
	char name[ENV_NAMESZ];
	char *data;
	long len, cap;
	int exists;
	long mtime;
	int opens, writes, truncs;
};
extern struct efile env_fs[ENV_NFILES];
extern char env_in[ENV_INSZ];
extern int env_in_bulk;
extern int env_in_len, env_in_pos;
extern const char *env_in_tail;
extern long env_in_reads;
extern char symx_stdout[ENV_OUTSZ];
extern int symx_stdout_len;
extern char env_tty[ENV_TTYSZ];
extern int env_tty_len;
extern long env_tty_total;
extern long env_clock;
extern int env_fault_n, env_fault_kind[ENV_NFAULT], env_fault_arg[ENV_NFAULT];
extern int env_calls, env_faults_hit, env_shorts_hit, env_opens, env_read_chunk;
extern char env_log[ENV_LOGSZ];
extern int env_log_len;
extern const char *env_exinit, *env_lines, *env_columns;
extern int env_mark_at[ENV_NMARK], env_nmarks;
extern long env_mark_tty[ENV_NMARK];
extern void (*env_mark_fn)(int k);

int env_mkfile(const char *name, const char *data, int len, long mtime);
int env_find(const char *path);
void env_out(const char *s, int n);
int vi_main(int argc, char **argv);	/* the editor's main() */
#endif
