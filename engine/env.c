/*
 * Environment model for neatvi: everything below libc that the editor touches.
 * The same file is compiled to LLVM IR for the symbolic engine and to a native
 * object for replay; the editor's calls are redirected to the env_* names
 * (IR: symbol rename in the .ll text; native: objcopy --redefine-sym).
 *
 * In-memory file system with fault injection, a stdin byte queue, a captured
 * terminal stream, fixed environment variables; no processes, no sockets, no
 * terminal (tcgetattr/ioctl fail, so rows/cols come from LINES/COLUMNS).
 */
#include <stddef.h>
#include <errno.h>
#include <stdlib.h>
#include <string.h>
#include <sys/stat.h>
#include <poll.h>
#include "symx.h"
#include "env.h"

/* ---- stdin */
char env_in[ENV_INSZ];
int env_in_len, env_in_pos;
const char *env_in_tail = "";	/* repeated forever once env_in is used up ("" = EOF) */
static int tail_pos;
long env_in_reads;		/* bytes delivered in total */
int env_in_bulk;		/* read(0, buf, n) delivers up to n waiting bytes instead of one */
#define TAIL_MAX 64		/* after so many tail bytes the input really ends */

/* marks: when the byte at env_mark_at[k] is about to be delivered, remember how much terminal output exists
 * and call the harness (it may look at the editor's state between two commands) */
int env_mark_at[ENV_NMARK], env_nmarks;
long env_mark_tty[ENV_NMARK];
void (*env_mark_fn)(int k);

static int in_next(void)
{
	int k;
	for (k = 0; k < env_nmarks; k++)
		if (env_in_pos == env_mark_at[k] && env_mark_tty[k] < 0) {
			env_mark_tty[k] = env_tty_len;
			if (env_mark_fn)
				env_mark_fn(k);
		}
	if (env_in_pos < env_in_len) {
		env_in_reads++;
		return (unsigned char) env_in[env_in_pos++];
	}
	if (env_in_tail[0] && tail_pos < TAIL_MAX) {
		int c = (unsigned char) env_in_tail[tail_pos % (int) strlen(env_in_tail)];
		tail_pos++;
		env_in_reads++;
		return c;
	}
	return -1;
}

int env_getc(void *f) { return in_next(); }
int env_getchar(void) { return in_next(); }

/* ---- stdout (printf/puts of the editor) and the terminal stream (fd 1, 2) */
char symx_stdout[ENV_OUTSZ];
int symx_stdout_len;
char env_tty[ENV_TTYSZ];
int env_tty_len;
long env_tty_total;

void env_out(const char *s, int n)
{
	if (symx_stdout_len + n > ENV_OUTSZ)
		n = ENV_OUTSZ - symx_stdout_len;
	if (n > 0) {
		memcpy(symx_stdout + symx_stdout_len, s, n);
		symx_stdout_len += n;
	}
}

int env_puts(const char *s)
{
	env_out(s, strlen(s));
	env_out("\n", 1);
	return 1;
}

/* ---- tiny file system */
struct efile env_fs[ENV_NFILES];
static struct efd { int used, file; long pos; } env_fd[ENV_NFD];
long env_clock = 1000;

/* fault schedule: outcome of the k-th open/write/close/read call on a file descriptor > 2 */
int env_fault_n;			/* number of scheduled outcomes */
int env_fault_kind[ENV_NFAULT];		/* ENV_OK, ENV_FAIL, ENV_SHORT */
int env_fault_arg[ENV_NFAULT];		/* ENV_SHORT: bytes to accept (1..n-1); ENV_FAIL: errno (0: EIO) */
int env_calls;				/* open/write/close calls on files so far */
int env_faults_hit;			/* scheduled failures consumed */
int env_shorts_hit;
int env_opens;				/* successful opens */
int env_read_chunk;			/* if > 0: read() on files returns at most this many bytes */
char env_log[ENV_LOGSZ];		/* one letter per file system call: o w c r t (upper case: failed) */
int env_log_len;

static void elog(int c) { if (env_log_len < ENV_LOGSZ - 1) env_log[env_log_len++] = c; }

static int next_fault(int *arg)
{
	int k = env_calls++;
	if (k < env_fault_n) {
		*arg = env_fault_arg[k];
		return env_fault_kind[k];
	}
	return ENV_OK;
}

int env_find(const char *p)
{
	int i;
	for (i = 0; i < ENV_NFILES; i++)
		if (env_fs[i].name[0] && !strcmp(env_fs[i].name, p))
			return i;
	return -1;
}

static void fgrow(struct efile *f, long need)
{
	char *d;
	long cap = f->cap ? f->cap : 64;
	if (need <= f->cap)
		return;
	while (cap < need)
		cap *= 2;
	d = malloc(cap);
	if (f->len > 0)
		memcpy(d, f->data, f->len);
	free(f->data);
	f->data = d;
	f->cap = cap;
}

int env_mkfile(const char *name, const char *data, int len, long mtime)
{
	int i;
	if (strlen(name) >= ENV_NAMESZ)
		return -1;
	i = env_find(name);
	if (i < 0)
		for (i = 0; i < ENV_NFILES; i++)
			if (!env_fs[i].name[0])
				break;
	if (i >= ENV_NFILES)
		return -1;
	strcpy(env_fs[i].name, name);
	env_fs[i].len = 0;
	fgrow(&env_fs[i], len + 1);
	if (len > 0)
		memcpy(env_fs[i].data, data, len);
	env_fs[i].len = len;
	env_fs[i].exists = 1;
	env_fs[i].mtime = mtime;
	return i;
}

int env_open(const char *path, int flags, ...)
{
	int f = env_find(path), i, arg;
	if (next_fault(&arg) == ENV_FAIL) {
		env_faults_hit++;
		errno = arg > 0 ? arg : EIO;
		elog('O');
		return -1;
	}
	if (f < 0 || !env_fs[f].exists) {
		if (!(flags & 0100)) {	/* O_CREAT */
			elog('O');
			return -1;
		}
		if (f < 0)
			f = env_mkfile(path, "", 0, 0);
		if (f < 0) {
			elog('O');
			return -1;
		}
		env_fs[f].exists = 1;
		env_fs[f].len = 0;
		env_fs[f].mtime = ++env_clock;
	}
	if (flags & 01000) {		/* O_TRUNC */
		env_fs[f].len = 0;
		env_fs[f].mtime = ++env_clock;
	}
	for (i = 3; i < ENV_NFD; i++)
		if (!env_fd[i].used) {
			env_fd[i].used = 1;
			env_fd[i].file = f;
			env_fd[i].pos = 0;
			env_opens++;
			env_fs[f].opens++;
			elog('o');
			return i;
		}
	elog('O');
	return -1;
}

int env_close(int fd)
{
	int arg;
	if (fd < 3 || fd >= ENV_NFD || !env_fd[fd].used)
		return -1;
	env_fd[fd].used = 0;		/* the descriptor is gone either way */
	if (next_fault(&arg) == ENV_FAIL) {
		env_faults_hit++;
		errno = arg > 0 ? arg : EIO;
		elog('C');
		return -1;
	}
	elog('c');
	return 0;
}

long env_read(int fd, void *buf, size_t n)
{
	struct efile *f;
	long k;
	if (fd == 0) {
		int c;
		size_t got = 0;
		if (n == 0 || (c = in_next()) < 0)
			return 0;
		((char *) buf)[got++] = c;
		/* a terminal in raw mode hands over one byte per read; a pipe or a paste hands over all that is waiting */
		while (env_in_bulk && got < n && env_in_pos < env_in_len && (c = in_next()) >= 0)
			((char *) buf)[got++] = c;
		return got;
	}
	if (fd < 3 || fd >= ENV_NFD || !env_fd[fd].used)
		return -1;
	f = &env_fs[env_fd[fd].file];
	k = f->len - env_fd[fd].pos;
	if (k > (long) n)
		k = n;
	if (env_read_chunk > 0 && k > env_read_chunk)
		k = env_read_chunk;
	if (k < 0)
		k = 0;
	if (k > 0)
		memcpy(buf, f->data + env_fd[fd].pos, k);
	env_fd[fd].pos += k;
	elog('r');
	return k;
}

long env_write(int fd, const void *buf, size_t n)
{
	struct efile *f;
	int arg, kind;
	if (fd == 1 || fd == 2) {
		env_tty_total += n;
		if (env_tty_len + n <= sizeof(env_tty)) {
			memcpy(env_tty + env_tty_len, buf, n);
			env_tty_len += n;
		}
		return n;
	}
	if (fd < 3 || fd >= ENV_NFD || !env_fd[fd].used)
		return -1;
	kind = next_fault(&arg);
	if (kind == ENV_FAIL) {
		env_faults_hit++;
		errno = arg > 0 ? arg : EIO;
		elog('W');
		return -1;
	}
	if (kind == ENV_SHORT) {	/* arg: bytes accepted; -1 = half, -2 = all but one */
		long k = arg == -1 ? (long) n / 2 : arg == -2 ? (long) n - 1 : arg;
		if (k > 0 && (size_t) k < n) {
			env_shorts_hit++;
			n = k;
		}
	}
	f = &env_fs[env_fd[fd].file];
	fgrow(f, env_fd[fd].pos + n + 1);
	if (n > 0)
		memcpy(f->data + env_fd[fd].pos, buf, n);
	env_fd[fd].pos += n;
	if (env_fd[fd].pos > f->len)
		f->len = env_fd[fd].pos;
	f->mtime = ++env_clock;
	f->writes++;
	elog('w');
	return n;
}

int env_ftruncate(int fd, long len)
{
	struct efile *f;
	if (fd < 3 || fd >= ENV_NFD || !env_fd[fd].used)
		return -1;
	f = &env_fs[env_fd[fd].file];
	if (len > f->len) {
		fgrow(f, len + 1);
		memset(f->data + f->len, 0, len - f->len);
	}
	f->len = len;
	f->truncs++;
	f->mtime = ++env_clock;
	elog('t');
	return 0;
}

int env_stat(const char *path, struct stat *st)
{
	int f = env_find(path);
	if (f < 0 || !env_fs[f].exists)
		return -1;
	memset(st, 0, sizeof(*st));
	st->st_mtime = env_fs[f].mtime;
	st->st_size = env_fs[f].len;
	st->st_mode = 0100644;
	return 0;
}

int env_access(const char *path, int mode)
{
	int f = env_find(path);
	return f >= 0 && env_fs[f].exists ? 0 : -1;
}

/* ---- terminal / processes / sockets: not available */
int env_poll(struct pollfd *fds, unsigned long n, int t) { return 1; }
int env_ioctl(int fd, unsigned long req, ...) { return -1; }
int env_tcgetattr(int fd, void *t) { return -1; }
int env_tcsetattr(int fd, int a, const void *t) { return -1; }
int env_isatty(int fd) { return 0; }
int env_fork(void) { return -1; }
int env_pipe(int *fds) { fds[0] = fds[1] = -1; return -1; }
int env_dup(int fd) { return -1; }
int env_execvp(const char *f, char *const argv[]) { return -1; }
int env_waitpid(int pid, int *st, int opt) { return -1; }
int env_kill(int pid, int sig) { return 0; }
void *env_signal(int sig, void *h) { return 0; }
int env_fcntl(int fd, int cmd, ...) { return 0; }
int env_socket(int a, int b, int c) { return -1; }
int env_connect(int fd, const void *a, unsigned l) { return -1; }
int env_shutdown(int fd, int how) { return -1; }

const char *env_exinit = "";
const char *env_lines = "6", *env_columns = "20";
char *env_getenv(const char *name)
{
	if (!strcmp(name, "EXINIT"))
		return (char *) env_exinit;
	if (!strcmp(name, "LINES"))
		return (char *) env_lines;
	if (!strcmp(name, "COLUMNS"))
		return (char *) env_columns;
	return 0;
}

#ifdef SYMX_IR
void *stdin;
#endif
