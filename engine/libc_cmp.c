/* compares the C-locale libc model (libc_model.c, functions renamed m_*) with the real libc */
#include <ctype.h>
#include <stdio.h>
#include <stdlib.h>
#include <string.h>
#include <strings.h>
#define M(f) m_##f
size_t m_strlen(const char *); char *m_strchr(const char *, int); char *m_strrchr(const char *, int);
int m_strcmp(const char *, const char *); int m_strncmp(const char *, const char *, size_t);
char *m_strcpy(char *, const char *); char *m_strcat(char *, const char *); char *m_strstr(const char *, const char *);
int m_isdigit(int); int m_islower(int); int m_isupper(int); int m_isalpha(int); int m_isalnum(int); int m_isspace(int);
int m_isprint(int); int m_tolower(int); int m_toupper(int); int m_abs(int); long m_strtol(const char *, char **, int);
int m_atoi(const char *); int m_memcmp(const void *, const void *, size_t); char *m_stpcpy(char *, const char *);
int m_ispunct(int); int m_isxdigit(int); int m_iscntrl(int); int m_isblank(int); int m_isgraph(int);
size_t m_strspn(const char *, const char *); size_t m_strcspn(const char *, const char *); char *m_strpbrk(const char *, const char *);
int m_strcasecmp(const char *, const char *); size_t m_strnlen(const char *, size_t);
static int sgn(int x) { return (x > 0) - (x < 0); }
static const char *corpus[] = {"", "a", "abc", "abd", "ab", "ABC", "a b\tc", "hello world", "  42x", "-17", "+9 ", "007", "x",
	"\xd8\xa8\xd8\xa7", "caf\xc3\xa9", "\xff\xfe", "12345678901", "aaa", "aab", "\n", "a\nb\n", "%s%d", "zzzzzzzz", " \t\n-5q"};
int main(void)
{
	int c, i, j, bad = 0, n = sizeof(corpus) / sizeof(corpus[0]), checks = 0;
	for (c = -1; c < 256; c++) {
#define CT(f) do { checks++; if (!!M(f)(c) != !!f(c)) { printf("ctype %s(%d) differs\n", #f, c); bad++; } } while (0)
		CT(isdigit); CT(islower); CT(isupper); CT(isalpha); CT(isalnum); CT(isspace); CT(isprint); CT(ispunct); CT(isxdigit); CT(iscntrl); CT(isblank); CT(isgraph);
		checks += 2;
		if (m_tolower(c) != tolower(c)) { printf("tolower(%d)\n", c); bad++; }
		if (m_toupper(c) != toupper(c)) { printf("toupper(%d)\n", c); bad++; }
	}
	for (i = 0; i < n; i++) {
		const char *a = corpus[i];
		char b1[64], b2[64], *e1, *e2;
		checks += 6;
		if (m_strlen(a) != strlen(a)) { printf("strlen %d\n", i); bad++; }
		if (m_atoi(a) != atoi(a)) { printf("atoi %d\n", i); bad++; }
		if (m_strtol(a, &e1, 10) != strtol(a, &e2, 10) || e1 != e2) { printf("strtol %d\n", i); bad++; }
		if (strcmp(m_strcpy(b1, a), strcpy(b2, a))) { printf("strcpy %d\n", i); bad++; }
		if (m_stpcpy(b1, a) - b1 != stpcpy(b2, a) - b2) { printf("stpcpy %d\n", i); bad++; }
		for (c = 0; c < 256; c++) {
			checks += 2;
			if (m_strchr(a, c) != strchr(a, c)) { printf("strchr %d %d\n", i, c); bad++; }
			if (m_strrchr(a, c) != strrchr(a, c)) { printf("strrchr %d %d\n", i, c); bad++; }
		}
		for (j = 0; j < n; j++) {
			const char *b = corpus[j];
			size_t k, la = strlen(a), lb = strlen(b);
			checks += 3;
			if (sgn(m_strcmp(a, b)) != sgn(strcmp(a, b))) { printf("strcmp %d %d\n", i, j); bad++; }
			if (m_strstr(a, b) != strstr(a, b)) { printf("strstr %d %d\n", i, j); bad++; }
			checks += 4;
			if (m_strspn(a, b) != strspn(a, b)) { printf("strspn %d %d\n", i, j); bad++; }
			if (m_strcspn(a, b) != strcspn(a, b)) { printf("strcspn %d %d\n", i, j); bad++; }
			if (m_strpbrk(a, b) != strpbrk(a, b)) { printf("strpbrk %d %d\n", i, j); bad++; }
			if (sgn(m_strcasecmp(a, b)) != sgn(strcasecmp(a, b))) { printf("strcasecmp %d %d\n", i, j); bad++; }
			strcpy(b1, a); strcpy(b2, a);
			if (strcmp(m_strcat(b1, b), strcat(b2, b))) { printf("strcat %d %d\n", i, j); bad++; }
			for (k = 0; k < 6; k++) {
				checks += 2;
				if (sgn(m_strncmp(a, b, k)) != sgn(strncmp(a, b, k))) { printf("strncmp %d %d %d\n", i, j, (int) k); bad++; }
				if (k <= la && k <= lb && sgn(m_memcmp(a, b, k)) != sgn(memcmp(a, b, k))) { printf("memcmp %d %d\n", i, j); bad++; }
			}
		}
	}
	printf("libc model comparison: %d checks, %d differences\n", checks, bad);
	return bad != 0;
}
