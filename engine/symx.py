#!/usr/bin/env python3
"""symx: a small path-forking symbolic executor for LLVM-14 textual IR (prototype).

Values are python ints (concrete) or z3 bit-vectors (symbolic) or UNDEF.
Memory is a set of objects with concrete base addresses; bytes are concrete,
symbolic or uninitialised.  Branches on symbolic conditions fork the state;
feasibility and assertions are decided by z3.
"""
import sys, re, time, bisect, threading, zlib, json, os, multiprocessing
import z3

sys.setrecursionlimit(1000000)

class Undef:
    __slots__ = ()
    def __repr__(self): return 'UNDEF'
UNDEF = Undef()

# ---------------------------------------------------------------- types
PTR = ('p',)
VOID = ('v',)

class Types:
    def __init__(self):
        self.named = {}
        self.cache = {}
    def resolve(self, t):
        while t[0] == 'n':
            t = self.named[t[1]]
        return t
    def size(self, t):
        k = self.cache.get(t)
        if k is not None:
            return k
        r = self._size(t)
        self.cache[t] = r
        return r
    def _size(self, t):
        t = self.resolve(t)
        k = t[0]
        if k == 'i':
            return (t[1] + 7) // 8
        if k == 'p':
            return 8
        if k == 'a':
            return t[1] * self.size(t[2])
        if k == 's':
            return self.layout(t)[1]
        if k == 'v' or k == 'f':
            return 0
        if k == 'o':
            return 0
        raise Exception('size of %r' % (t,))
    def align(self, t):
        t = self.resolve(t)
        k = t[0]
        if k == 'i':
            s = (t[1] + 7) // 8
            a = 1
            while a < s and a < 8:
                a *= 2
            return a
        if k == 'p':
            return 8
        if k == 'a':
            return self.align(t[2])
        if k == 's':
            if t[2]:
                return 1
            return max([self.align(f) for f in t[1]] or [1])
        return 1
    def layout(self, t):
        key = ('L', t)
        r = self.cache.get(key)
        if r is not None:
            return r
        t0 = self.resolve(t)
        offs = []
        off = 0
        for f in t0[1]:
            if not t0[2]:
                a = self.align(f)
                off = (off + a - 1) // a * a
            offs.append(off)
            off += self.size(f)
        if not t0[2]:
            a = self.align(t0)
            off = (off + a - 1) // a * a
        r = (offs, off)
        self.cache[key] = r
        return r

# ---------------------------------------------------------------- lexer
TOK = re.compile(r'''\s*(?:
    (c"(?:[^"])*") |
    ("(?:[^"])*") |
    ([%@][-a-zA-Z$._0-9]+|[%@]"[^"]*") |
    (![-a-zA-Z$._0-9]*) |
    (\#\d+) |
    (-?\d+\.\d+(?:e[-+]?\d+)?|-?\d+|0x[0-9A-Fa-f]+) |
    (\.\.\.) |
    ([-a-zA-Z_.][-a-zA-Z_.0-9]*) |
    (.)
)''', re.X)

def lex(s):
    out = []
    pos = 0
    n = len(s)
    while pos < n:
        m = TOK.match(s, pos)
        if not m:
            break
        pos = m.end()
        t = m.group(m.lastindex)
        if m.lastindex == 9 and t == ';':
            break
        out.append(t)
    return out

class P:
    """token stream parser"""
    def __init__(self, toks, mod):
        self.t = toks
        self.i = 0
        self.mod = mod
    def peek(self):
        return self.t[self.i] if self.i < len(self.t) else None
    def next(self):
        t = self.t[self.i]
        self.i += 1
        return t
    def accept(self, x):
        if self.i < len(self.t) and self.t[self.i] == x:
            self.i += 1
            return True
        return False
    def expect(self, x):
        t = self.next()
        if t != x:
            raise Exception('expected %r got %r in %r' % (x, t, ' '.join(self.t)))
    def type(self):
        t = self.next()
        if t == 'void':
            ty = VOID
        elif t == 'ptr':
            ty = PTR
        elif t == 'opaque':
            ty = ('o',)
        elif t[0] == 'i' and t[1:].isdigit():
            ty = ('i', int(t[1:]))
        elif t in ('float', 'double', 'x86_fp80', 'metadata', 'label'):
            ty = ('i', 64)
        elif t == '[':
            n = int(self.next())
            self.expect('x')
            e = self.type()
            self.expect(']')
            ty = ('a', n, e)
        elif t == '{':
            fs = []
            if not self.accept('}'):
                while True:
                    fs.append(self.type())
                    if self.accept('}'):
                        break
                    self.expect(',')
            ty = ('s', tuple(fs), False)
        elif t == '<':
            if self.peek() == '{':
                self.next()
                fs = []
                if not self.accept('}'):
                    while True:
                        fs.append(self.type())
                        if self.accept('}'):
                            break
                        self.expect(',')
                self.expect('>')
                ty = ('s', tuple(fs), True)
            else:
                raise Exception('vector types unsupported')
        elif t[0] == '%':
            ty = ('n', t)
        else:
            raise Exception('bad type token %r in %r' % (t, ' '.join(self.t)))
        while True:
            if self.accept('*'):
                ty = PTR
            elif self.peek() == '(':
                # function type
                self.next()
                depth = 1
                while depth:
                    x = self.next()
                    if x == '(':
                        depth += 1
                    elif x == ')':
                        depth -= 1
                ty = ('f',)
            else:
                break
        return ty

ATTRS = set('''noundef nonnull nocapture readonly writeonly readnone noalias signext zeroext returned
 inreg byval sret align dereferenceable dereferenceable_or_null immarg nofree nest swiftself
 noundef inbounds nuw nsw exact volatile tail musttail notail fastcc ccc coldcc dso_local local_unnamed_addr
 unnamed_addr internal private external global constant common weak linkonce_odr hidden default
 allocsize'''.split())

# ---------------------------------------------------------------- module
class Func:
    __slots__ = ('name', 'params', 'blocks', 'nregs', 'regidx', 'vararg', 'addr', 'code', 'labels')

class Obj:
    __slots__ = ('base', 'size', 'data', 'init', 'sym', 'alive', 'kind', 'name', 'owner', 'ro')
    def clone(self, owner):
        o = Obj()
        o.base = self.base; o.size = self.size
        o.data = bytearray(self.data); o.init = bytearray(self.init)
        o.sym = dict(self.sym); o.alive = self.alive; o.kind = self.kind
        o.name = self.name; o.owner = owner; o.ro = self.ro
        return o

class SymxError(Exception):
    pass

class Module:
    def __init__(self):
        self.types = Types()
        self.funcs = {}
        self.gaddr = {}      # global name -> address
        self.ginit = []      # (name, type, inittokens, const)
        self.objs = {}       # base -> Obj (initial memory)
        self.bases = []
        self.next_base = 0x100000
        self.faddr = {}      # function name -> fake addr
        self.fbyaddr = {}
        self.declared = set()

    # ---- memory allocation of globals
    def alloc(self, size, kind, name, owner=None):
        o = Obj()
        o.base = self.next_base
        o.size = size
        self.next_base += (size + 64 + 15) // 16 * 16
        o.data = bytearray(size)
        o.init = bytearray(size)
        o.sym = {}
        o.alive = True
        o.kind = kind
        o.name = name
        o.owner = owner
        o.ro = False
        return o

    def load(self, text):
        lines = text.split('\n')
        i = 0
        fbodies = []
        while i < len(lines):
            ln = lines[i]
            i += 1
            if not ln or ln[0] == ';' or ln.startswith('source_filename') or ln.startswith('target ') \
                    or ln[0] == '!' or ln.startswith('attributes '):
                continue
            if ln[0] == '%':
                toks = lex(ln)
                name = toks[0]
                p = P(toks[3:], self)
                self.types.named[name] = p.type()
                continue
            if ln[0] == '@':
                self.parse_global(ln)
                continue
            if ln.startswith('declare'):
                m = re.search(r'@([-a-zA-Z$._0-9]+)\s*\(', ln)
                self.declared.add(m.group(1))
                continue
            if ln.startswith('define'):
                body = []
                while lines[i] != '}':
                    body.append(lines[i])
                    i += 1
                i += 1
                fbodies.append((ln, body))
                continue
        # function addresses
        for hdr, body in fbodies:
            m = re.search(r'@([-a-zA-Z$._0-9]+)\s*\(', hdr)
            self.faddr[m.group(1)] = 0
        for n in self.declared:
            self.faddr.setdefault(n, 0)
        a = 0x1000
        for n in self.faddr:
            self.faddr[n] = a
            self.fbyaddr[a] = n
            a += 16
        # allocate globals
        for name, ty, toks, const in self.ginit:
            o = self.alloc(self.types.size(ty), 'global', name)
            o.ro = const
            self.gaddr[name] = o.base
            self.objs[o.base] = o
        for name, ty, toks, const in self.ginit:
            o = self.objs[self.gaddr[name]]
            if toks is None:
                o.init[:] = b'\x01' * o.size
                continue
            p = P(toks, self)
            self.init_const(o, 0, ty, p)
        for hdr, body in fbodies:
            self.parse_func(hdr, body)

    def parse_global(self, ln):
        toks = lex(ln)
        name = toks[0][1:]
        j = 2
        const = False
        external = False
        while toks[j] not in ('global', 'constant'):
            if toks[j] == 'external':
                external = True
            j += 1
        const = toks[j] == 'constant'
        p = P(toks[j + 1:], self)
        ty = p.type()
        rest = p.t[p.i:]
        # strip trailing ", align N" etc.
        if external or not rest or rest[0] == ',':
            self.ginit.append((name, ty, None, const))
        else:
            self.ginit.append((name, ty, rest, const))

    def const_scalar(self, ty, p):
        """parse a constant of scalar type; returns python int (or UNDEF)"""
        t = p.next()
        if t in ('null', 'zeroinitializer', 'false', 'none'):
            return 0
        if t == 'true':
            return 1
        if t in ('undef', 'poison'):
            return UNDEF
        if t[0] == '@':
            n = t[1:].strip('"')
            if n in self.gaddr:
                return self.gaddr[n]
            if n in self.faddr:
                return self.faddr[n]
            raise Exception('unknown global %s' % n)
        if t[0].isdigit() or t[0] == '-':
            v = int(t, 0)
            bits = self.types.resolve(ty)[1] if self.types.resolve(ty)[0] == 'i' else 64
            return v & ((1 << bits) - 1)
        if t == 'getelementptr':
            p.accept('inbounds')
            p.expect('(')
            bty = p.type()
            p.expect(',')
            pty = p.type()
            base = self.const_scalar(pty, p)
            idx = []
            while p.accept(','):
                p.accept('inrange')
                ity = p.type()
                idx.append(self.const_scalar(ity, p))
            p.expect(')')
            return base + self.gep_offset(bty, [self.sx(x, 64) for x in idx])
        if t in ('trunc', 'zext', 'sext'):
            p.expect('(')
            sty = p.type()
            v = self.const_scalar(sty, p)
            p.expect('to')
            dty = self.types.resolve(p.type())
            p.expect(')')
            sb = self.types.resolve(sty)
            sbits = sb[1] if sb[0] == 'i' else 64
            dbits = dty[1] if dty[0] == 'i' else 64
            if t == 'sext' and v >> (sbits - 1):
                v -= 1 << sbits
            return v & ((1 << dbits) - 1)
        if t in ('bitcast', 'ptrtoint', 'inttoptr', 'addrspacecast'):
            p.expect('(')
            sty = p.type()
            v = self.const_scalar(sty, p)
            p.expect('to')
            p.type()
            p.expect(')')
            return v
        if t in ('add', 'sub'):
            while p.peek() in ('nuw', 'nsw'):
                p.next()
            p.expect('(')
            t1 = p.type(); a = self.const_scalar(t1, p); p.expect(',')
            t2 = p.type(); b = self.const_scalar(t2, p); p.expect(')')
            return (a + b if t == 'add' else a - b) & ((1 << 64) - 1)
        raise Exception('const scalar %r' % t)

    @staticmethod
    def sx(v, bits):
        if v is UNDEF:
            return 0
        return v - (1 << bits) if v >> (bits - 1) else v

    def gep_offset(self, bty, idx):
        T = self.types
        off = idx[0] * T.size(bty)
        ty = bty
        for k in idx[1:]:
            ty = T.resolve(ty)
            if ty[0] == 'a':
                ty = ty[2]
                off += k * T.size(ty)
            elif ty[0] == 's':
                offs, _ = T.layout(ty)
                off += offs[k]
                ty = ty[1][k]
            else:
                raise Exception('gep into %r' % (ty,))
        return off

    def init_const(self, o, off, ty, p):
        T = self.types
        rt = T.resolve(ty)
        sz = T.size(ty)
        t = p.peek()
        if t == 'zeroinitializer':
            p.next()
            o.init[off:off + sz] = b'\x01' * sz
            return
        if t in ('undef', 'poison'):
            p.next()
            o.init[off:off + sz] = b'\x01' * sz
            return
        if rt[0] == 'a':
            if t.startswith('c"'):
                p.next()
                s = t[2:-1]
                b = bytearray()
                k = 0
                while k < len(s):
                    if s[k] == '\\' and s[k + 1] == '\\':
                        b.append(92)
                        k += 2
                    elif s[k] == '\\':
                        b.append(int(s[k + 1:k + 3], 16))
                        k += 3
                    else:
                        b += s[k].encode('utf-8')
                        k += 1
                assert len(b) == sz, (len(b), sz, t)
                o.data[off:off + sz] = b
                o.init[off:off + sz] = b'\x01' * sz
                return
            p.expect('[')
            es = T.size(rt[2])
            for k in range(rt[1]):
                if k:
                    p.expect(',')
                ety = p.type()
                self.init_const(o, off + k * es, ety, p)
            p.expect(']')
            return
        if rt[0] == 's':
            packed = p.accept('<')
            p.expect('{')
            offs, _ = T.layout(ty)
            for k, f in enumerate(rt[1]):
                if k:
                    p.expect(',')
                fty = p.type()
                self.init_const(o, off + offs[k], fty, p)
            p.expect('}')
            if packed:
                p.expect('>')
            o.init[off:off + sz] = b'\x01' * sz
            return
        v = self.const_scalar(ty, p)
        if v is UNDEF:
            v = 0
        o.data[off:off + sz] = (v & ((1 << (8 * sz)) - 1)).to_bytes(sz, 'little')
        o.init[off:off + sz] = b'\x01' * sz

    # ---- functions
    def parse_func(self, hdr, body):
        f = Func()
        m = re.search(r'@([-a-zA-Z$._0-9]+)\s*\((.*)\)[^)]*\{', hdr)
        f.name = m.group(1)
        f.addr = self.faddr[f.name]
        ptoks = lex(m.group(2))
        f.vararg = '...' in ptoks
        regidx = {}
        def reg(name):
            r = regidx.get(name)
            if r is None:
                r = len(regidx)
                regidx[name] = r
            return r
        f.params = []
        p = P(ptoks, self)
        nparam = 0
        while p.peek() is not None:
            if p.accept('...'):
                break
            ty = p.type()
            while p.peek() is not None and p.peek() != ',' and p.peek()[0] != '%':
                t = p.next()
                if t == '(':
                    while p.next() != ')':
                        pass
            if p.peek() is not None and p.peek()[0] == '%':
                f.params.append(reg(p.next()))
            else:
                f.params.append(reg('%' + str(nparam)))
            nparam += 1
            p.accept(',')
        # implicit numbering: unnamed entry block takes the next number
        labels = {}
        code = []
        first = True
        pending = []
        for ln in body:
            if not ln.strip():
                continue
            if not ln.startswith(' '):
                lab = ln.split(':')[0].strip()
                labels['%' + lab] = len(code)
                first = False
                continue
            if first:
                labels['%' + str(nparam)] = 0
                first = False
            toks = lex(ln)
            if pending:
                if toks and toks[0] == ']':      # "]" or "], !llvm.loop !N": the case list is complete
                    pending.append(']')
                    code.append(pending)
                    pending = []
                else:
                    pending.extend(toks)
                continue
            if toks and toks[0] == 'switch' and toks[-1] == '[':
                pending = toks
                continue
            code.append(toks)
        f.labels = labels
        f.regidx = regidx
        f.code = [self.decode(toks, f, reg) for toks in code]
        f.nregs = len(regidx)
        self.funcs[f.name] = f

    def operand(self, ty, p, reg):
        """returns (isreg, payload)"""
        t = p.peek()
        if t[0] == '%':
            p.next()
            return (1, reg(t))
        return (0, self.const_scalar(ty, p))

    def decode(self, toks, f, reg):
        p = P(toks, self)
        dst = -1
        if len(toks) > 1 and toks[1] == '=':
            dst = reg(toks[0])
            p.i = 2
        op = p.next()
        while op in ('tail', 'musttail', 'notail'):
            op = p.next()
        T = self.types
        if op in ('add', 'sub', 'mul', 'and', 'or', 'xor', 'shl', 'lshr', 'ashr',
                  'sdiv', 'udiv', 'srem', 'urem'):
            while p.peek() in ('nuw', 'nsw', 'exact'):
                p.next()
            ty = p.type()
            a = self.operand(ty, p, reg)
            p.expect(',')
            b = self.operand(ty, p, reg)
            return ('bin', dst, op, T.resolve(ty)[1], a, b)
        if op == 'icmp':
            pred = p.next()
            ty = p.type()
            a = self.operand(ty, p, reg)
            p.expect(',')
            b = self.operand(ty, p, reg)
            bits = 64 if T.resolve(ty)[0] == 'p' else T.resolve(ty)[1]
            return ('icmp', dst, pred, bits, a, b)
        if op == 'br':
            if p.peek() == 'label':
                p.next()
                return ('jmp', p.next())
            ty = p.type()
            c = self.operand(ty, p, reg)
            p.expect(','); p.expect('label'); l1 = p.next()
            p.expect(','); p.expect('label'); l2 = p.next()
            return ('br', c, l1, l2)
        if op == 'switch':
            ty = p.type()
            v = self.operand(ty, p, reg)
            p.expect(','); p.expect('label'); dflt = p.next()
            p.expect('[')
            cases = []
            while not p.accept(']'):
                cty = p.type()
                cv = self.const_scalar(cty, p)
                p.expect(','); p.expect('label')
                cases.append((cv, p.next()))
            return ('switch', v, dflt, cases, T.resolve(ty)[1])
        if op == 'ret':
            ty = p.type()
            if ty == VOID:
                return ('ret', None)
            return ('ret', self.operand(ty, p, reg))
        if op == 'load':
            p.accept('volatile')
            ty = p.type()
            p.expect(',')
            pty = p.type()
            a = self.operand(pty, p, reg)
            return ('load', dst, T.size(ty), a, T.resolve(ty)[0] == 'i' and T.resolve(ty)[1] or 64)
        if op == 'store':
            p.accept('volatile')
            ty = p.type()
            v = self.operand(ty, p, reg)
            p.expect(',')
            pty = p.type()
            a = self.operand(pty, p, reg)
            return ('store', T.size(ty), v, a)
        if op == 'getelementptr':
            p.accept('inbounds')
            bty = p.type()
            p.expect(',')
            pty = p.type()
            base = self.operand(pty, p, reg)
            # precompute: list of (kind, ...) steps
            steps = []
            ty = bty
            firstidx = True
            const_off = 0
            while p.accept(','):
                ity = p.type()
                ibits = T.resolve(ity)[1]
                idx = self.operand(ity, p, reg)
                if firstidx:
                    scale = T.size(bty)
                    firstidx = False
                else:
                    rt = T.resolve(ty)
                    if rt[0] == 'a':
                        ty = rt[2]
                        scale = T.size(ty)
                    elif rt[0] == 's':
                        k = idx[1]
                        offs, _ = T.layout(rt)
                        const_off += offs[k]
                        ty = rt[1][k]
                        continue
                    else:
                        raise Exception('gep into %r' % (rt,))
                if idx[0] == 0:
                    const_off += self.sx(idx[1], ibits) * scale
                else:
                    steps.append((idx[1], ibits, scale))
            return ('gep', dst, base, const_off, tuple(steps))
        if op in ('zext', 'sext', 'trunc', 'bitcast', 'ptrtoint', 'inttoptr', 'freeze'):
            ty = p.type()
            a = self.operand(ty, p, reg)
            if op == 'freeze':
                return ('cast', dst, 'bitcast', 64, 64, a)
            p.expect('to')
            ty2 = p.type()
            def bits(t):
                t = T.resolve(t)
                return t[1] if t[0] == 'i' else 64
            return ('cast', dst, op, bits(ty), bits(ty2), a)
        if op == 'select':
            cty = p.type()
            c = self.operand(cty, p, reg)
            p.expect(',')
            ty = p.type()
            a = self.operand(ty, p, reg)
            p.expect(',')
            ty2 = p.type()
            b = self.operand(ty2, p, reg)
            bits = T.resolve(ty)[1] if T.resolve(ty)[0] == 'i' else 64
            return ('select', dst, c, a, b, bits)
        if op == 'phi':
            ty = p.type()
            inc = []
            while True:
                p.expect('[')
                v = self.operand(ty, p, reg)
                p.expect(',')
                lab = p.next()
                p.expect(']')
                inc.append((lab, v))
                if not p.accept(','):
                    break
            bits = T.resolve(ty)[1] if T.resolve(ty)[0] == 'i' else 64
            return ('phi', dst, inc, bits)
        if op == 'alloca':
            ty = p.type()
            n = (0, 1)
            if p.accept(','):
                if p.peek() != 'align':
                    nty = p.type()
                    n = self.operand(nty, p, reg)
            return ('alloca', dst, T.size(ty), n)
        if op == 'call':
            while p.peek() in ATTRS or p.peek().startswith('#'):
                t = p.next()
                if p.peek() == '(' and t in ('align', 'dereferenceable', 'dereferenceable_or_null'):
                    while p.next() != ')':
                        pass
                elif t == 'align' and p.peek().isdigit():
                    p.next()
            rty = p.type()
            callee = p.next()
            if callee == 'bitcast':
                p.expect('(')
                p.type()
                callee = p.next()
                p.expect('to')
                p.type()
                p.expect(')')
            if callee[0] == '@':
                target = (0, callee[1:])
            else:
                target = (1, reg(callee))
            p.expect('(')
            args = []
            if not p.accept(')'):
                while True:
                    aty = p.type()
                    while p.peek() in ATTRS:
                        t = p.next()
                        if p.peek() == '(':
                            while p.next() != ')':
                                pass
                        elif t == 'align' and p.peek().isdigit():
                            p.next()
                    rt = T.resolve(aty)
                    abits = rt[1] if rt[0] == 'i' else 64
                    args.append((self.operand(aty, p, reg), abits))
                    if p.accept(')'):
                        break
                    p.expect(',')
            rb = T.resolve(rty)
            return ('call', dst, target, args, rb[1] if rb[0] == 'i' else 64)
        if op == 'unreachable':
            return ('unreachable',)
        raise Exception('unknown instruction %r' % (toks,))

    def finalize(self):
        """resolve labels to indices and phi tables"""
        for f in self.funcs.values():
            lab = f.labels
            # block id for each instruction index (for phi predecessor tracking)
            starts = sorted(set(lab.values()))
            new = []
            for ins in f.code:
                k = ins[0]
                if k == 'jmp':
                    ins = ('jmp', lab[ins[1]])
                elif k == 'br':
                    ins = ('br', ins[1], lab[ins[2]], lab[ins[3]])
                elif k == 'switch':
                    ins = ('switch', ins[1], lab[ins[2]], {c: lab[l] for c, l in ins[3]}, ins[4])
                elif k == 'phi':
                    ins = ('phi', ins[1], {lab[l]: v for l, v in ins[2]}, ins[3])
                new.append(ins)
            f.code = new
            f.blocks = starts

# ---------------------------------------------------------------- executor
MASK = {b: (1 << b) - 1 for b in (1, 8, 16, 32, 64, 128)}

def mask(b):
    m = MASK.get(b)
    if m is None:
        m = (1 << b) - 1
        MASK[b] = m
    return m

class Frame:
    __slots__ = ('f', 'regs', 'pc', 'blk', 'prev', 'allocas', 'dst', 'varargs', 'on_ret')

class State:
    def __init__(self):
        self.frames = []
        self.objs = None
        self.bases = None
        self.token = object()
        self.next_base = 0
        self.nsteps = 0
        self.inputs = []       # (name, z3 var)
        self.notes = []
        self.valist = {}
        self.choices = ()      # semantic labels of the real forks taken (for slicing)
        self.mine = None       # decided once len(choices) reaches the split depth
        self.obs = []          # (name, value) observations for witness validation
        self.live = {}         # tracked function -> live frames
        self.depthmax = {}     # tracked function -> max live frames on this path
        self.killed = False    # ended by a failed assume
        self.failed = False    # an assertion failed concretely on this path
        self.known = {}        # ast id -> (expr, bool): branch conditions already decided under this path condition

    def fork(self):
        s = State()
        fr2 = []
        for fr in self.frames:
            g = Frame()
            g.f = fr.f; g.regs = list(fr.regs); g.pc = fr.pc; g.blk = fr.blk; g.prev = fr.prev
            g.allocas = list(fr.allocas); g.dst = fr.dst; g.varargs = fr.varargs; g.on_ret = fr.on_ret
            fr2.append(g)
        s.frames = fr2
        s.objs = dict(self.objs)
        s.bases = list(self.bases)
        s.next_base = self.next_base
        s.nsteps = self.nsteps
        s.inputs = list(self.inputs)
        s.notes = list(self.notes)
        s.valist = dict(self.valist)
        s.choices = self.choices; s.mine = self.mine; s.failed = self.failed
        s.known = dict(self.known)
        s.obs = list(self.obs); s.live = dict(self.live); s.depthmax = dict(self.depthmax)
        # both get new tokens so both copy-on-write
        self.token = object()
        s.token = object()
        return s

class Violation(Exception):
    def __init__(self, kind, msg):
        self.kind = kind; self.msg = msg

class PathEnd(Exception):
    pass

class Engine:
    def __init__(self, mod, max_steps=5_000_000, stop_on_first=False, verbose=0):
        self.mod = mod
        self.T = mod.types
        self.solver = z3.Solver()
        self.max_steps = max_steps
        self.paths = 0
        self.queries = 0
        self.solver_time = 0.0
        self.steps = 0
        self.violations = []
        self.stop_on_first = stop_on_first
        self.verbose = verbose
        self.nsym = 0
        self.pc_stack = []
        self.model = None
        self.intr = {}
        self.assume_killed = 0
        self.budget_hits = 0
        self.reached = {}
        self.t0 = time.time()
        self.max_paths = 10**9
        self.nslices = 1; self.slice = 0; self.split_depth = 0
        self.stop = False
        self.deadline = time.time() + 10**9
        self.completed = 0
        self.forks = 0
        self.max_path_steps = 0
        self.depth_seen = {}
        self.samples = []; self.sample_stride = 1; self.max_samples = 64
        self.vclasses = {}
        self.max_examples = 3
        self.inconclusive = []
        self.funcs_entered = set()
        self.track = set()
        self.known_hits = 0
        self.sem = None            # token pool for forked workers (None: single process)
        self.kids = []
        self.partbase = None
        self.spawned = 0
        self.is_child = False
        install_intrinsics(self)

    # ---- solver helpers
    def check(self, extra=None):
        t0 = time.time()
        self.queries += 1
        if extra is None:
            r = self.solver.check()
        else:
            r = self.solver.check(extra)
        self.solver_time += time.time() - t0
        if r == z3.unknown:
            self.inconclusive.append({'kind': 'solver-unknown', 'msg': str(self.solver.reason_unknown())})
            self.stop = True
            return False
        return r == z3.sat

    def model_true(self, cond):
        if self.model is None:
            return None
        v = self.model.eval(cond, model_completion=True)
        if z3.is_true(v):
            return True
        if z3.is_false(v):
            return False
        return None

    # ---- memory
    def find_obj(self, st, addr):
        i = bisect.bisect_right(st.bases, addr) - 1
        if i < 0:
            return None
        o = st.objs[st.bases[i]]
        if addr > o.base + o.size:
            return None
        return o

    def wobj(self, st, o):
        if o.owner is not st.token:
            o = o.clone(st.token)
            st.objs[o.base] = o
        return o

    def alloc(self, st, size, kind, name):
        o = Obj()
        o.base = st.next_base
        o.size = size
        st.next_base += (size + 64 + 15) // 16 * 16
        o.data = bytearray(size); o.init = bytearray(size); o.sym = {}
        o.alive = True; o.kind = kind; o.name = name; o.owner = st.token; o.ro = False
        st.objs[o.base] = o
        st.bases.append(o.base)
        return o

    def conc_addr(self, st, addr, n, what):
        """resolve a possibly symbolic address to a concrete one (forking is done by caller via values)"""
        if type(addr) is int:
            return addr
        if addr is UNDEF:
            raise Violation('uninit', '%s through uninitialised pointer' % what)
        raise NeedConcretize(addr)

    def access(self, st, addr, n, what):
        o = self.find_obj(st, addr)
        if o is None or addr + n > o.base + o.size or addr < o.base:
            if addr < 4096:
                raise Violation('null', '%s of %d bytes at NULL+%d' % (what, n, addr))
            near = o.name if o else '?'
            raise Violation('oob', '%s of %d bytes at %#x outside any object (nearest %s base %#x size %d)' %
                            (what, n, addr, near, o.base if o else 0, o.size if o else 0))
        if not o.alive:
            raise Violation('uaf', '%s of %d bytes in dead %s object %s' % (what, n, o.kind, o.name))
        return o

    def load(self, st, addr, n):
        o = self.access(st, addr, n, 'load')
        off = addr - o.base
        if not o.sym and o.init[off:off + n] == ONES[n]:
            return int.from_bytes(o.data[off:off + n], 'little')
        parts = []
        anysym = False
        for k in range(n):
            if not o.init[off + k]:
                return UNDEF
            s = o.sym.get(off + k)
            if s is None:
                parts.append(o.data[off + k])
            else:
                parts.append(s)
                anysym = True
        if not anysym:
            return int.from_bytes(bytes(parts), 'little')
        es = [p if type(p) is not int else z3.BitVecVal(p, 8) for p in parts]
        if n == 1:
            return es[0]
        return z3.simplify(z3.Concat(*reversed(es)))

    def store(self, st, addr, n, v):
        o = self.access(st, addr, n, 'store')
        if o.ro:
            raise Violation('ro', 'store to read-only object %s' % o.name)
        o = self.wobj(st, o)
        off = addr - o.base
        if type(v) is int:
            o.data[off:off + n] = (v & mask(8 * n)).to_bytes(n, 'little')
            o.init[off:off + n] = ONES[n]
            if o.sym:
                for k in range(n):
                    o.sym.pop(off + k, None)
        elif v is UNDEF:
            o.init[off:off + n] = bytes(n)
        else:
            o.init[off:off + n] = ONES[n]
            for k in range(n):
                o.sym[off + k] = z3.simplify(z3.Extract(8 * k + 7, 8 * k, v)) if n > 1 else v

    def cstring(self, st, addr, limit=1 << 20):
        out = bytearray()
        while len(out) < limit:
            b = self.load(st, addr + len(out), 1)
            if type(b) is not int:
                raise SymxError('symbolic/undef byte in concrete string')
            if b == 0:
                break
            out.append(b)
        return bytes(out)

    # ---- running
    def new_state(self):
        st = State()
        st.objs = dict(self.mod.objs)
        st.bases = sorted(st.objs)
        st.next_base = self.mod.next_base
        return st

    def push_frame(self, st, f, args, dst, varargs=None):
        fr = Frame()
        fr.f = f
        fr.regs = [UNDEF] * f.nregs
        for r, a in zip(f.params, args):
            fr.regs[r] = a
        fr.pc = 0; fr.blk = 0; fr.prev = 0; fr.allocas = []; fr.dst = dst
        fr.varargs = varargs; fr.on_ret = None
        st.frames.append(fr)
        nm = f.name
        if nm not in self.funcs_entered:
            self.funcs_entered.add(nm)
        if nm in self.track:
            k = st.live.get(nm, 0) + 1
            st.live[nm] = k
            if k > st.depthmax.get(nm, 0):
                st.depthmax[nm] = k

    def run(self, entry):
        st = self.new_state()
        self.push_frame(st, self.mod.funcs[entry], [], -1)
        self.explore(st)

    def is_mine(self, st):
        """does this slice own the (possibly still short) path of st?"""
        if self.nslices <= 1:
            return True
        if st.mine is not None:
            return st.mine
        return zlib.crc32(repr(st.choices).encode()) % self.nslices == self.slice

    def choose(self, st, label):
        """record a real fork choice; returns False if the subtree belongs to another slice"""
        if self.nslices <= 1 or st.mine is not None:
            return True
        st.choices = st.choices + (label,)
        if len(st.choices) >= self.split_depth:
            st.mine = zlib.crc32(repr(st.choices).encode()) % self.nslices == self.slice
            return st.mine
        return True

    def path_done(self, st):
        if not self.is_mine(st):
            return
        self.paths += 1
        if st.killed:
            self.assume_killed += 1
            return
        self.completed += 1
        if st.nsteps > self.max_path_steps:
            self.max_path_steps = st.nsteps
        for k, v in st.depthmax.items():
            if v > self.depth_seen.get(k, 0):
                self.depth_seen[k] = v
        # sample this path? (every path until the cap, then thinning by stride)
        if self.completed % self.sample_stride == 0 and not st.failed:
            m = self.model
            if m is None:
                m = _model(self)
            if m is not None:
                self.samples.append({'inputs': self.eval_inputs(st, m), 'obs': self.eval_obs(st, m)})
                if len(self.samples) >= 2 * self.max_samples:
                    self.samples = self.samples[::2]
                    self.sample_stride *= 2
        if self.verbose and self.paths % 2000 == 0:
            print('  paths=%d steps=%d queries=%d solver=%.1fs viol=%d t=%.0fs' % (self.paths, self.steps, self.queries, self.solver_time, len(self.vclasses), time.time() - self.t0), file=sys.stderr)
        if self.paths >= self.max_paths:
            self.inconclusive.append({'kind': 'max-paths', 'msg': 'path cap %d reached' % self.max_paths})
            self.stop = True

    def eval_inputs(self, st, m):
        out = []
        for name, var in st.inputs:
            out.append([name, m.eval(var, model_completion=True).as_long()])
        return out

    def eval_obs(self, st, m):
        out = []
        for name, v in st.obs:
            if type(v) is int:
                out.append([name, v])
            elif v is UNDEF:
                out.append([name, 'undef'])
            elif type(v) is bytes:
                out.append([name, v.hex()])
            elif type(v) is list:
                bs = bytearray()
                for b in v:
                    bs.append(b if type(b) is int else m.eval(b, model_completion=True).as_long())
                out.append([name, bytes(bs).hex()])
            else:
                if z3.is_bool(v):
                    out.append([name, 1 if z3.is_true(m.eval(v, model_completion=True)) else 0])
                else:
                    out.append([name, m.eval(v, model_completion=True).as_long()])
        return out

    def try_spawn(self, fn):
        """explore a subtree in a forked worker process if a token is free; fn() does the exploration"""
        if self.sem is None or not self.sem.acquire(False):
            return False
        if len(self.kids) >= 32:
            self.reap()
        try:
            pid = os.fork()
        except OSError:         # no process to be had right now: explore in this process
            self.sem.release()
            self.reap()
            return False
        if pid:
            self.kids.append(pid)
            self.spawned += 1
            return True
        # ---- child: fresh counters, explore, write its part, release the token, wait for its own children
        self.is_child = True
        self.kids = []
        self.paths = self.completed = self.steps = self.queries = self.forks = self.assume_killed = 0
        self.budget_hits = self.spawned = 0
        self.solver_time = 0.0
        self.reached = {}; self.vclasses = {}; self.inconclusive = []; self.samples = []; self.sample_stride = 1
        self.funcs_entered = set(); self.depth_seen = {}; self.max_path_steps = 0
        code = 0
        try:
            fn()
        except SymxError as e:
            self.inconclusive.append({'kind': 'engine-error', 'msg': str(e)})
        except BaseException as e:
            import traceback
            self.inconclusive.append({'kind': 'engine-error', 'msg': 'worker: %r %s' % (e, traceback.format_exc()[-1500:])})
        try:
            with open('%s.part.%d' % (self.partbase, os.getpid()), 'w') as f:
                json.dump(self.result(), f)
        except BaseException:
            code = 1
        self.sem.release()
        self.wait_kids()
        os._exit(code)

    def reap(self):
        """collect the workers that have finished (so that they do not pile up as zombies)"""
        alive = []
        for pid in self.kids:
            try:
                p, st = os.waitpid(pid, os.WNOHANG)
            except ChildProcessError:
                continue
            if p == 0:
                alive.append(pid)
            elif st != 0:
                self.inconclusive.append({'kind': 'engine-error', 'msg': 'worker %d exited with status %d' % (pid, st)})
        self.kids = alive

    def wait_kids(self):
        for pid in self.kids:
            try:
                _, st = os.waitpid(pid, 0)
                if st != 0:
                    self.inconclusive.append({'kind': 'engine-error', 'msg': 'worker %d exited with status %d' % (pid, st)})
            except ChildProcessError:
                pass
        self.kids = []

    def result(self):
        return {'paths': self.paths, 'completed': self.completed, 'steps': self.steps, 'queries': self.queries,
                'solver_s': round(self.solver_time, 3), 'forks': self.forks, 'assume_killed': self.assume_killed,
                'violations': list(self.vclasses.values()), 'inconclusive': self.inconclusive[:50], 'reached': self.reached,
                'budget_hits': self.budget_hits, 'max_path_steps': self.max_path_steps, 'depth_seen': self.depth_seen,
                'funcs': sorted(self.funcs_entered), 'samples': self.samples, 'spawned': self.spawned}

    def explore(self, st):
        """run st to completion, forking at symbolic branches (recursive DFS)"""
        while True:
            if self.stop:
                return
            if time.time() > self.deadline:
                self.inconclusive.append({'kind': 'timeout', 'msg': 'wall-clock cap reached'})
                self.stop = True
                return
            try:
                fork = self.step_until_fork(st)
            except PathEnd:
                self.path_done(st)
                return
            except Violation as v:
                self.report(st, v.kind, v.msg, self.model)
                st.killed = True
                if self.is_mine(st):
                    self.paths += 1
                return
            kind = fork[0]
            if kind == 'cond' and fork[3] is _kill_state:
                # an assumption: the false side dies at once, so no state fork and no slice choice
                cond = fork[1]
                mt = self.model_true(cond)
                if mt is not True:
                    if not self.check(cond):
                        st.killed = True
                        self.path_done(st)
                        return
                    self.model = self.solver.model()
                    killed_side = True      # the cached model violated cond, so the other side exists
                else:
                    killed_side = self.check(z3.Not(cond))
                if killed_side and self.is_mine(st):
                    self.paths += 1
                    self.assume_killed += 1
                self.solver.add(cond)
                continue
            if kind == 'cond':
                _, cond, on_true, on_false = fork
                cid = cond.get_id()
                kn = st.known.get(cid)
                if kn is not None:
                    # decided earlier on this path; the path condition only grows, so it stays decided
                    self.known_hits += 1
                    (on_true if kn[1] else on_false)(st)
                    continue
                ncond = z3.Not(cond)
                mt = self.model_true(cond)
                sides = []
                if mt is True:
                    t0m = self.model
                    other = self.check(ncond)
                    om = self.solver.model() if other else None
                    sides.append((cond, on_true, t0m, 'T'))
                    if other:
                        sides.append((ncond, on_false, om, 'F'))
                elif mt is False:
                    t0m = self.model
                    other = self.check(cond)
                    om = self.solver.model() if other else None
                    sides.append((ncond, on_false, t0m, 'F'))
                    if other:
                        sides.append((cond, on_true, om, 'T'))
                else:
                    a = self.check(cond)
                    am = self.solver.model() if a else None
                    b = self.check(ncond)
                    bm = self.solver.model() if b else None
                    if a:
                        sides.append((cond, on_true, am, 'T'))
                    if b:
                        sides.append((ncond, on_false, bm, 'F'))
                if not sides:
                    st.killed = True
                    self.path_done(st)
                    return
                if len(sides) == 1:
                    c, cont, m, lab = sides[0]
                    self.model = m
                    st.known[cid] = (cond, lab == 'T')
                    cont(st)
                    continue
                # real fork
                self.forks += 1
                child = st.fork()
                (c1, k1, m1, l1), (c2, k2, m2, l2) = sides
                child.known[cid] = (cond, l2 == 'T')
                st.known[cid] = (cond, l1 == 'T')
                if self.choose(child, l2):
                    def sub(child=child, c2=c2, m2=m2, k2=k2):
                        self.solver.push(); self.solver.add(c2); self.model = m2
                        k2(child)
                        self.explore(child)
                        self.solver.pop()
                    if not self.try_spawn(sub):
                        sub()
                if self.stop:
                    return
                if not self.choose(st, l1):
                    return
                self.solver.add(c1); self.model = m1   # stays for rest of this path (popped by caller)
                k1(st)
                continue
            elif kind == 'values':
                # concretize expression: fork per feasible value
                _, expr, cont, limit = fork
                vals = []
                self.solver.push()
                while len(vals) <= limit and self.check():
                    m = self.solver.model()
                    v = m.eval(expr, model_completion=True).as_long()
                    vals.append((v, m))
                    self.solver.add(expr != v)
                self.solver.pop()
                if len(vals) > limit:
                    self.inconclusive.append({'kind': 'concretize', 'msg': 'more than %d values for %s' % (limit, str(expr)[:200]),
                                              'where': self.where(st), 'inputs': self.eval_inputs(st, vals[0][1])})
                    return
                if not vals:
                    st.killed = True
                    self.path_done(st)
                    return
                vals.sort(key=lambda t: t[0])
                if len(vals) > 1:
                    self.forks += 1
                for i, (v, m) in enumerate(vals):
                    last = i == len(vals) - 1
                    s2 = st if last else st.fork()
                    if len(vals) > 1 and not self.choose(s2, v):
                        if last:
                            return
                        continue
                    if not last:
                        def sub(s2=s2, v=v, m=m):
                            self.solver.push()
                            self.solver.add(expr == v)
                            self.model = m
                            cont(s2, v)
                            self.explore(s2)
                            self.solver.pop()
                        if not self.try_spawn(sub):
                            sub()
                        if self.stop:
                            return
                    else:
                        self.solver.add(expr == v)
                        self.model = m
                        cont(s2, v)
                        st = s2
                continue

    def where(self, st):
        return ' <- '.join('%s+%d' % (fr.f.name, fr.pc) for fr in reversed(st.frames[-8:]))

    def report(self, st, kind, msg, model):
        if not self.is_mine(st):
            return
        if kind == 'budget':
            self.budget_hits += 1
        fn = [fr.f.name for fr in reversed(st.frames[-8:])]
        msg = _ADDR.sub('N', msg)
        key = (kind, msg, tuple(fn[:2]))
        c = self.vclasses.get(key)
        if c is None:
            c = {'kind': kind, 'msg': msg, 'stack': fn, 'count': 0, 'examples': []}
            self.vclasses[key] = c
        c['count'] += 1
        if len(c['examples']) < self.max_examples:
            if model is None:
                model = _model(self)
            inputs = self.eval_inputs(st, model) if model is not None else []
            c['examples'].append({'inputs': inputs, 'where': self.where(st), 'notes': list(st.notes),
                                  'obs': self.eval_obs(st, model) if model is not None else []})
        if self.verbose:
            print('VIOLATION', kind, msg, 'at', self.where(st), file=sys.stderr)
        if self.stop_on_first:
            self.stop = True

    # the interpreter proper
    def step_until_fork(self, st):
        mod = self.mod
        funcs = mod.funcs
        while True:
            fr = st.frames[-1]
            code = fr.f.code
            regs = fr.regs
            while True:
                ins = code[fr.pc]
                fr.pc += 1
                st.nsteps += 1
                self.steps += 1
                op = ins[0]
                if op == 'load':
                    a = ins[3]
                    addr = regs[a[1]] if a[0] else a[1]
                    if type(addr) is not int:
                        if addr is UNDEF:
                            raise Violation('uninit', 'load through uninitialised pointer')
                        fr.pc -= 1
                        return self.concretize_addr(st, fr, a, addr, ins[2], 'load')
                    regs[ins[1]] = self.load(st, addr, ins[2])
                elif op == 'br':
                    c = ins[1]
                    v = regs[c[1]] if c[0] else c[1]
                    if type(v) is int:
                        fr.prev = fr.blk
                        fr.pc = fr.blk = ins[2] if v & 1 else ins[3]
                    elif v is UNDEF:
                        raise Violation('uninit', 'branch on uninitialised value')
                    else:
                        cond = v == 1 if not z3.is_bool(v) else v
                        cond = z3.simplify(cond)
                        if z3.is_true(cond):
                            fr.prev = fr.blk; fr.pc = fr.blk = ins[2]
                        elif z3.is_false(cond):
                            fr.prev = fr.blk; fr.pc = fr.blk = ins[3]
                        else:
                            t, f_ = ins[2], ins[3]
                            def go_t(s, t=t):
                                g = s.frames[-1]; g.prev = g.blk; g.pc = g.blk = t
                            def go_f(s, f_=f_):
                                g = s.frames[-1]; g.prev = g.blk; g.pc = g.blk = f_
                            return ('cond', cond, go_t, go_f)
                elif op == 'icmp':
                    a = ins[4]; b = ins[5]
                    x = regs[a[1]] if a[0] else a[1]
                    y = regs[b[1]] if b[0] else b[1]
                    regs[ins[1]] = self.icmp(ins[2], ins[3], x, y)
                elif op == 'gep':
                    b = ins[2]
                    base = regs[b[1]] if b[0] else b[1]
                    if base is UNDEF:
                        raise Violation('uninit', 'address computed from uninitialised pointer')
                    off = ins[3]
                    for (r, ibits, scale) in ins[4]:
                        iv = regs[r]
                        if type(iv) is int:
                            if iv >> (ibits - 1):
                                iv -= 1 << ibits
                            off += iv * scale
                        elif iv is UNDEF:
                            raise Violation('uninit', 'address computed from uninitialised index')
                        else:
                            if ibits < 64:
                                iv = z3.SignExt(64 - ibits, iv)
                            off = iv * scale + off
                    if type(base) is int and type(off) is int:
                        regs[ins[1]] = (base + off) & 0xffffffffffffffff
                    else:
                        regs[ins[1]] = z3.simplify(base + off)
                elif op == 'phi':
                    # evaluate all phis of the block simultaneously
                    vals = []
                    k = fr.pc - 1
                    while code[k][0] == 'phi':
                        p = code[k]
                        o = p[2][fr.prev]
                        vals.append((p[1], regs[o[1]] if o[0] else o[1]))
                        k += 1
                    for d, v in vals:
                        regs[d] = v
                    fr.pc = k
                elif op == 'store':
                    a = ins[3]
                    addr = regs[a[1]] if a[0] else a[1]
                    v = ins[2]
                    val = regs[v[1]] if v[0] else v[1]
                    if type(addr) is not int:
                        if addr is UNDEF:
                            raise Violation('uninit', 'store through uninitialised pointer')
                        fr.pc -= 1
                        return self.concretize_addr(st, fr, a, addr, ins[1], 'store')
                    self.store(st, addr, ins[1], val)
                elif op == 'bin':
                    a = ins[4]; b = ins[5]
                    x = regs[a[1]] if a[0] else a[1]
                    y = regs[b[1]] if b[0] else b[1]
                    regs[ins[1]] = self.binop(ins[2], ins[3], x, y)
                elif op == 'cast':
                    a = ins[5]
                    x = regs[a[1]] if a[0] else a[1]
                    regs[ins[1]] = self.cast(ins[2], ins[3], ins[4], x)
                elif op == 'jmp':
                    fr.prev = fr.blk
                    fr.pc = fr.blk = ins[1]
                elif op == 'select':
                    c = ins[2]
                    cv = regs[c[1]] if c[0] else c[1]
                    a = ins[3]; b = ins[4]
                    x = regs[a[1]] if a[0] else a[1]
                    y = regs[b[1]] if b[0] else b[1]
                    if type(cv) is int:
                        regs[ins[1]] = x if cv & 1 else y
                    elif cv is UNDEF:
                        raise Violation('uninit', 'select on uninitialised value')
                    else:
                        if x is UNDEF or y is UNDEF:
                            # must decide: fork
                            cond = z3.simplify(cv == 1 if not z3.is_bool(cv) else cv)
                            d = ins[1]
                            def st_t(s, d=d, x=x): s.frames[-1].regs[d] = x
                            def st_f(s, d=d, y=y): s.frames[-1].regs[d] = y
                            return ('cond', cond, st_t, st_f)
                        bits = ins[5]
                        if bits == 1:
                            xe = x if z3.is_bool(x) else (z3.BoolVal(bool(x)) if type(x) is int else x == 1)
                            ye = y if z3.is_bool(y) else (z3.BoolVal(bool(y)) if type(y) is int else y == 1)
                        else:
                            xe = self.tobv(x, bits)
                            ye = self.tobv(y, bits)
                        cb = cv == 1 if not z3.is_bool(cv) else cv
                        regs[ins[1]] = z3.simplify(z3.If(cb, xe, ye))
                elif op == 'call':
                    tgt = ins[2]
                    if tgt[0]:
                        fa = regs[tgt[1]]
                        if type(fa) is not int:
                            raise Violation('badcall', 'indirect call through symbolic/undef pointer')
                        name = mod.fbyaddr.get(fa)
                        if name is None:
                            raise Violation('badcall', 'indirect call to non-function %#x' % fa)
                    else:
                        name = tgt[1]
                    args = [regs[a[1]] if a[0] else a[1] for a, _ in ins[3]]
                    h = self.intr.get(name)
                    if h is not None:
                        try:
                            r = h(self, st, fr, ins, args)
                        except NeedConc as nc:
                            a = ins[3][nc.idx][0]
                            if not a[0]:
                                raise SymxError('symbolic constant operand')
                            fr.pc -= 1
                            def cont(s, val, r=a[1]):
                                s.frames[-1].regs[r] = val
                            return ('values', args[nc.idx], cont, nc.limit)
                        if r is not NOTHANDLED:
                            if type(r) is tuple and r and r[0] in ('cond', 'values'):
                                return r
                            if st.frames[-1] is not fr:
                                break
                            if ins[1] >= 0:
                                regs[ins[1]] = r
                            continue
                    f = funcs.get(name)
                    if f is None:
                        if name.startswith('llvm.lifetime') or name.startswith('llvm.dbg') or name == 'llvm.va_end':
                            continue
                        raise SymxError('call to undefined function %s' % name)
                    if len(st.frames) > 400:
                        raise Violation('stack', 'call depth > 400')
                    np = len(f.params)
                    self.push_frame(st, f, args[:np], ins[1], args[np:] if f.vararg else None)
                    break
                elif op == 'ret':
                    v = None
                    if ins[1] is not None:
                        a = ins[1]
                        v = regs[a[1]] if a[0] else a[1]
                    if fr.allocas:
                        bases = st.bases
                        for ob in reversed(fr.allocas):
                            if st.objs.pop(ob, None) is not None:
                                if bases[-1] == ob:
                                    bases.pop()
                                else:
                                    k = bisect.bisect_left(bases, ob)
                                    if k < len(bases) and bases[k] == ob:
                                        del bases[k]
                    nm = fr.f.name
                    if nm in self.track:
                        st.live[nm] = st.live.get(nm, 1) - 1
                    st.frames.pop()
                    if fr.on_ret is not None:
                        fr.on_ret(self, st)
                    if not st.frames:
                        raise PathEnd()
                    if fr.dst >= 0:
                        st.frames[-1].regs[fr.dst] = v
                    break
                elif op == 'switch':
                    a = ins[1]
                    v = regs[a[1]] if a[0] else a[1]
                    if type(v) is int:
                        fr.prev = fr.blk
                        fr.pc = fr.blk = ins[3].get(v, ins[2])
                    elif v is UNDEF:
                        raise Violation('uninit', 'switch on uninitialised value')
                    else:
                        fr.pc -= 1
                        r = a[1]
                        def cont(s, val, r=r):
                            s.frames[-1].regs[r] = val
                        # fork over case values + default
                        return self.switch_fork(st, v, ins)
                elif op == 'alloca':
                    n = ins[3]
                    cnt = regs[n[1]] if n[0] else n[1]
                    if type(cnt) is not int:
                        raise SymxError('symbolic alloca count')
                    o = self.alloc(st, ins[2] * cnt, 'stack', '%s.alloca' % fr.f.name)
                    fr.allocas.append(o.base)
                    regs[ins[1]] = o.base
                elif op == 'unreachable':
                    raise Violation('unreachable', 'reached unreachable')
                else:
                    raise SymxError('op %s' % op)
                if st.nsteps > self.max_steps:
                    raise Violation('budget', 'instruction budget %d exceeded (possible hang)' % self.max_steps)

    def switch_fork(self, st, v, ins):
        # turn into a chain of cond forks: handled as 'values' over the distinct targets
        cases = ins[3]
        dflt = ins[2]
        # build expression selecting target index
        targets = sorted(set(cases.values()) | {dflt})
        e = z3.BitVecVal(targets.index(dflt), 32)
        for c, t in cases.items():
            e = z3.If(v == c, z3.BitVecVal(targets.index(t), 32), e)
        def cont(s, val):
            g = s.frames[-1]
            g.pc += 1
            g.prev = g.blk
            g.pc = g.blk = targets[val]
        return ('values', e, cont, len(targets) + 1)

    def concretize_addr(self, st, fr, a, addr, n, what):
        # fork over feasible addresses (bounded)
        if not a[0]:
            raise SymxError('symbolic constant address?')
        r = a[1]
        def cont(s, val, r=r):
            s.frames[-1].regs[r] = val
        return ('values', addr, cont, 300)

    def icmp(self, pred, bits, x, y):
        if type(x) is int and type(y) is int:
            if pred == 'eq': return int(x == y)
            if pred == 'ne': return int(x != y)
            if pred[0] == 's':
                h = 1 << (bits - 1)
                if x & h: x -= h << 1
                if y & h: y -= h << 1
            if pred in ('ugt', 'sgt'): return int(x > y)
            if pred in ('uge', 'sge'): return int(x >= y)
            if pred in ('ult', 'slt'): return int(x < y)
            if pred in ('ule', 'sle'): return int(x <= y)
            raise SymxError(pred)
        if x is UNDEF or y is UNDEF:
            return UNDEF
        if type(x) is int: x = z3.BitVecVal(x, bits)
        if type(y) is int: y = z3.BitVecVal(y, bits)
        if z3.is_bool(x): x = z3.If(x, z3.BitVecVal(1, 1), z3.BitVecVal(0, 1))
        if z3.is_bool(y): y = z3.If(y, z3.BitVecVal(1, 1), z3.BitVecVal(0, 1))
        if pred == 'eq': return x == y
        if pred == 'ne': return x != y
        if pred == 'ugt': return z3.UGT(x, y)
        if pred == 'uge': return z3.UGE(x, y)
        if pred == 'ult': return z3.ULT(x, y)
        if pred == 'ule': return z3.ULE(x, y)
        if pred == 'sgt': return x > y
        if pred == 'sge': return x >= y
        if pred == 'slt': return x < y
        if pred == 'sle': return x <= y
        raise SymxError(pred)

    def tobv(self, v, bits):
        if type(v) is int:
            return z3.BitVecVal(v, bits)
        if z3.is_bool(v):
            return z3.If(v, z3.BitVecVal(1, bits), z3.BitVecVal(0, bits))
        return v

    def binop(self, op, bits, x, y):
        if type(x) is int and type(y) is int:
            m = mask(bits)
            if op == 'add': return (x + y) & m
            if op == 'sub': return (x - y) & m
            if op == 'mul': return (x * y) & m
            if op == 'and': return x & y
            if op == 'or': return x | y
            if op == 'xor': return x ^ y
            if op == 'shl': return (x << y) & m if y < bits else 0
            if op == 'lshr': return x >> y if y < bits else 0
            h = 1 << (bits - 1)
            sx = x - (h << 1) if x & h else x
            sy = y - (h << 1) if y & h else y
            if op == 'ashr': return (sx >> min(y, bits - 1)) & m
            if op in ('sdiv', 'srem', 'udiv', 'urem') and y == 0:
                raise Violation('div0', 'division by zero')
            if op == 'udiv': return x // y
            if op == 'urem': return x % y
            if op == 'sdiv':
                q = abs(sx) // abs(sy)
                if (sx < 0) != (sy < 0): q = -q
                return q & m
            if op == 'srem':
                r = abs(sx) % abs(sy)
                if sx < 0: r = -r
                return r & m
            raise SymxError(op)
        if x is UNDEF or y is UNDEF:
            # an undefined operand does not matter where the other one decides the result (LLVM undef, not poison)
            o = y if x is UNDEF else x
            if type(o) is int:
                if op == 'and' and o == 0:
                    return 0
                if op == 'or' and o == mask(bits):
                    return o
                if op == 'mul' and o == 0:
                    return 0
            return UNDEF
        if bits == 1 and (z3.is_bool(x) or type(x) is int) and (z3.is_bool(y) or type(y) is int):
            xb = x if z3.is_bool(x) else z3.BoolVal(bool(x))
            yb = y if z3.is_bool(y) else z3.BoolVal(bool(y))
            if op == 'and': return z3.And(xb, yb)
            if op == 'or': return z3.Or(xb, yb)
            if op == 'xor': return z3.Xor(xb, yb)
        x = self.tobv(x, bits); y = self.tobv(y, bits)
        if op == 'add': return x + y
        if op == 'sub': return x - y
        if op == 'mul': return x * y
        if op == 'and': return x & y
        if op == 'or': return x | y
        if op == 'xor': return x ^ y
        if op == 'shl': return x << y
        if op == 'lshr': return z3.LShR(x, y)
        if op == 'ashr': return x >> y
        if op == 'udiv': return z3.UDiv(x, y)
        if op == 'urem': return z3.URem(x, y)
        if op == 'sdiv': return x / y
        if op == 'srem': return z3.SRem(x, y)
        raise SymxError(op)

    def cast(self, op, b1, b2, x):
        if type(x) is int:
            if op == 'sext':
                if x >> (b1 - 1):
                    x = (x - (1 << b1)) & mask(b2)
                return x
            if op == 'trunc' or b2 < b1:
                return x & mask(b2)
            return x
        if x is UNDEF:
            return UNDEF
        if z3.is_bool(x):
            if op == 'zext':
                return z3.If(x, z3.BitVecVal(1, b2), z3.BitVecVal(0, b2))
            if op == 'sext':
                return z3.If(x, z3.BitVecVal(mask(b2), b2), z3.BitVecVal(0, b2))
            return x
        if op == 'zext': return z3.ZeroExt(b2 - b1, x)
        if op == 'sext': return z3.SignExt(b2 - b1, x)
        if op == 'trunc':
            if b2 == 1:
                return z3.Extract(0, 0, x) == 1
            return z3.Extract(b2 - 1, 0, x)
        return x

_ADDR = re.compile(r'0x[0-9a-f]+|\d+')
ONES = [b'\x01' * n for n in range(0, 65)]
class _NotHandled:
    pass
NOTHANDLED = _NotHandled()

class NeedConcretize(Exception):
    pass

class NeedConc(Exception):
    def __init__(self, idx, limit=300):
        self.idx = idx; self.limit = limit

# ---------------------------------------------------------------- intrinsics
def install_intrinsics(E):
    I = E.intr

    def need_int(v, what):
        if type(v) is not int:
            raise SymxError('%s must be concrete (got %r)' % (what, v))
        return v

    def i_malloc(E, st, fr, ins, args):
        n = args[0]
        if type(n) is not int:
            if n is UNDEF:
                raise Violation('uninit', 'malloc of uninitialised size')
            r = ins[3][0][0]
            if not r[0]:
                raise SymxError('symbolic const size')
            fr.pc -= 1
            def cont(s, val, r=r[1]):
                s.frames[-1].regs[r] = val
            return ('values', n, cont, 70000)
        if n > (1 << 26):
            raise Violation('alloc', 'malloc(%d): absurd size' % n)
        o = E.alloc(st, n, 'heap', 'malloc@%s' % fr.f.name)
        return o.base
    I['malloc'] = i_malloc

    def i_free(E, st, fr, ins, args):
        a = args[0]
        if a is UNDEF:
            raise Violation('uninit', 'free of uninitialised pointer')
        if type(a) is not int:
            raise NeedConc(0)
        if a == 0:
            return None
        o = st.objs.get(a)
        if o is None or o.kind != 'heap':
            raise Violation('badfree', 'free of non-heap pointer %#x' % a)
        if not o.alive:
            raise Violation('doublefree', 'double free of %s' % o.name)
        o = E.wobj(st, o)
        o.alive = False
        return None
    I['free'] = i_free

    def copy_bytes(E, st, dst, src, n, what):
        if n == 0:
            return
        so = E.access(st, src, n, what + ' read')
        do = E.access(st, dst, n, what + ' write')
        if do.ro:
            raise Violation('ro', 'write to read-only object %s' % do.name)
        do = E.wobj(st, do)
        if so.base == do.base:
            so = do
        s0 = src - so.base; d0 = dst - do.base
        data = bytes(so.data[s0:s0 + n]); init = bytes(so.init[s0:s0 + n])
        syms = [(k, so.sym[s0 + k]) for k in range(n) if (s0 + k) in so.sym] if so.sym else []
        do.data[d0:d0 + n] = data
        do.init[d0:d0 + n] = init
        if do.sym:
            for k in range(n):
                do.sym.pop(d0 + k, None)
        for k, e in syms:
            do.sym[d0 + k] = e

    def mk_memcpy(name, isintr):
        def h(E, st, fr, ins, args):
            d, s, n = args[0], args[1], args[2]
            if type(n) is not int:
                if n is UNDEF:
                    raise Violation('uninit', '%s with uninitialised length' % name)
                r = ins[3][2][0]
                fr.pc -= 1
                def cont(st2, val, r=r[1]):
                    st2.frames[-1].regs[r] = val
                return ('values', n, cont, 70000)
            if d is UNDEF or s is UNDEF:
                raise Violation('uninit', '%s with uninitialised pointer' % name)
            if n >> 63:
                raise Violation('oob', '%s with negative length %d' % (name, n - (1 << 64)))
            if type(d) is not int:
                raise NeedConc(0)
            if type(s) is not int:
                raise NeedConc(1)
            copy_bytes(E, st, d, s, n, name)
            return d
        return h
    for nm in ('memcpy', 'memmove', 'llvm.memcpy.p0i8.p0i8.i64', 'llvm.memmove.p0i8.p0i8.i64'):
        I[nm] = mk_memcpy(nm, nm.startswith('llvm'))

    def i_memset(E, st, fr, ins, args):
        d, c, n = args[0], args[1], args[2]
        if type(n) is not int:
            if n is UNDEF: raise Violation('uninit', 'memset with uninitialised length')
            raise NeedConc(2, 64)
        if type(d) is not int:
            if d is UNDEF: raise Violation('uninit', 'memset with uninitialised pointer')
            raise NeedConc(0)
        if n == 0:
            return d
        o = E.access(st, d, n, 'memset')
        o = E.wobj(st, o)
        off = d - o.base
        if type(c) is int:
            o.data[off:off + n] = bytes([c & 255]) * n
            o.init[off:off + n] = b'\x01' * n
            if o.sym:
                for k in range(n):
                    o.sym.pop(off + k, None)
        else:
            for k in range(n):
                E.store(st, d + k, 1, c)
        return d
    I['memset'] = i_memset
    I['llvm.memset.p0i8.i64'] = i_memset

    def i_smax(E, st, fr, ins, args):
        x, y = args
        if type(x) is int and type(y) is int:
            sx = x - (1 << 32) if x >> 31 else x
            sy = y - (1 << 32) if y >> 31 else y
            return x if sx >= sy else y
        x = E.tobv(x, 32); y = E.tobv(y, 32)
        return z3.If(x >= y, x, y)
    I['llvm.smax.i32'] = i_smax
    def i_smin(E, st, fr, ins, args):
        x, y = args
        if type(x) is int and type(y) is int:
            sx = x - (1 << 32) if x >> 31 else x
            sy = y - (1 << 32) if y >> 31 else y
            return x if sx <= sy else y
        x = E.tobv(x, 32); y = E.tobv(y, 32)
        return z3.If(x <= y, x, y)
    I['llvm.smin.i32'] = i_smin
    def i_abs(E, st, fr, ins, args):
        x = args[0]
        if type(x) is int:
            return ((1 << 32) - x) & 0xffffffff if x >> 31 else x
        if x is UNDEF:
            return UNDEF
        return z3.If(x < 0, -x, x)
    I['llvm.abs.i32'] = i_abs
    def mk_minmax(bits, signed, ismax):
        def h(E, st, fr, ins, args):
            x, y = args
            if x is UNDEF or y is UNDEF:
                return UNDEF
            if type(x) is int and type(y) is int:
                sx, sy = x, y
                if signed:
                    if x >> (bits - 1): sx = x - (1 << bits)
                    if y >> (bits - 1): sy = y - (1 << bits)
                return x if ((sx >= sy) if ismax else (sx <= sy)) else y
            x = E.tobv(x, bits); y = E.tobv(y, bits)
            if signed:
                c = (x >= y) if ismax else (x <= y)
            else:
                c = z3.UGE(x, y) if ismax else z3.ULE(x, y)
            return z3.If(c, x, y)
        return h
    for b in (8, 16, 32, 64):
        I['llvm.smax.i%d' % b] = mk_minmax(b, True, True)
        I['llvm.smin.i%d' % b] = mk_minmax(b, True, False)
        I['llvm.umax.i%d' % b] = mk_minmax(b, False, True)
        I['llvm.umin.i%d' % b] = mk_minmax(b, False, False)
    def i_abs64(E, st, fr, ins, args):
        x = args[0]
        if type(x) is int:
            return ((1 << 64) - x) & mask(64) if x >> 63 else x
        if x is UNDEF:
            return UNDEF
        return z3.If(x < 0, -x, x)
    I['llvm.abs.i64'] = i_abs64


    # ---- more allocation
    def i_calloc(E, st, fr, ins, args):
        a, b = args[0], args[1]
        if type(a) is not int:
            if a is UNDEF: raise Violation('uninit', 'calloc of uninitialised size')
            raise NeedConc(0, 4096)
        if type(b) is not int:
            if b is UNDEF: raise Violation('uninit', 'calloc of uninitialised size')
            raise NeedConc(1, 4096)
        n = a * b
        if n > (1 << 26):
            raise Violation('alloc', 'calloc(%d): absurd size' % n)
        o = E.alloc(st, n, 'heap', 'calloc@%s' % fr.f.name)
        o.init[:] = b'\x01' * n
        return o.base
    I['calloc'] = i_calloc

    # ---- fast paths over concrete bytes (fall back to the IR model otherwise)
    def conc_span(E, st, addr, n):
        """bytes [addr, addr+n) if all concrete and initialised, else None"""
        o = E.find_obj(st, addr)
        if o is None or not o.alive or addr < o.base or addr + n > o.base + o.size:
            return None
        off = addr - o.base
        if o.init[off:off + n] != (ONES[n] if n <= 64 else b'\x01' * n):
            return None
        if o.sym:
            for k in o.sym:
                if off <= k < off + n:
                    return None
        return o.data[off:off + n]
    def conc_cstr(E, st, addr):
        """(bytes up to NUL) if the string is concrete, initialised and inside one object, else None"""
        if type(addr) is not int:
            return None
        o = E.find_obj(st, addr)
        if o is None or not o.alive or addr < o.base or addr >= o.base + o.size:
            return None
        off = addr - o.base
        z = o.data.find(0, off)
        if z < 0:
            return None
        n = z - off + 1
        if o.init[off:off + n].count(1) != n:
            return None
        if o.sym:
            for k in o.sym:
                if off <= k < off + n:
                    return None
        return bytes(o.data[off:z])
    E.conc_cstr = conc_cstr
    def f_strlen(E, st, fr, ins, args):
        s = conc_cstr(E, st, args[0])
        if s is None:
            return NOTHANDLED
        E.steps += len(s); st.nsteps += len(s)
        return len(s)
    I['strlen'] = f_strlen
    def f_strcmp(E, st, fr, ins, args):
        a = conc_cstr(E, st, args[0])
        if a is None: return NOTHANDLED
        b = conc_cstr(E, st, args[1])
        if b is None: return NOTHANDLED
        a += b'\0'; b += b'\0'
        for x, y in zip(a, b):
            if x != y:
                return (x - y) & 0xffffffff
        return 0
    I['strcmp'] = f_strcmp
    def f_strchr(E, st, fr, ins, args):
        if type(args[1]) is not int:
            return NOTHANDLED
        a = conc_cstr(E, st, args[0])
        if a is None: return NOTHANDLED
        c = args[1] & 255
        if c == 0:
            return args[0] + len(a)
        k = a.find(bytes([c]))
        return 0 if k < 0 else args[0] + k
    I['strchr'] = f_strchr
    def f_strcpy(E, st, fr, ins, args):
        if type(args[0]) is not int:
            return NOTHANDLED
        a = conc_cstr(E, st, args[1])
        if a is None: return NOTHANDLED
        copy_bytes(E, st, args[0], args[1], len(a) + 1, 'strcpy')
        return args[0]
    I['strcpy'] = f_strcpy
    def f_memcmp(E, st, fr, ins, args):
        if type(args[0]) is not int or type(args[1]) is not int or type(args[2]) is not int:
            return NOTHANDLED
        n = args[2]
        if n == 0:
            return 0
        a = conc_span(E, st, args[0], n)
        if a is None: return NOTHANDLED
        b = conc_span(E, st, args[1], n)
        if b is None: return NOTHANDLED
        for x, y in zip(a, b):
            if x != y:
                return (x - y) & 0xffffffff
        return 0
    I['memcmp'] = f_memcmp

    # ---- observations, depth tracking, isolated runs
    def i_observe(E, st, fr, ins, args):
        name = E.cstring(st, args[0]).decode()
        st.obs.append((name, args[1]))
        return None
    I['symx_observe'] = i_observe
    def i_observe_mem(E, st, fr, ins, args):
        name = E.cstring(st, args[0]).decode()
        p, n = args[1], args[2]
        if type(p) is not int or type(n) is not int:
            raise SymxError('symx_observe_mem needs concrete pointer and length')
        bs = []
        for k in range(n):
            b = E.load(st, p + k, 1)
            if b is UNDEF:
                raise Violation('uninit', 'observed byte %d of %s is uninitialised' % (k, name))
            bs.append(b)
        st.obs.append((name, bs))
        return None
    I['symx_observe_mem'] = i_observe_mem
    def i_max_depth(E, st, fr, ins, args):
        name = E.cstring(st, args[0]).decode()
        if name not in E.track:
            raise SymxError('symx_max_depth(%s): function not tracked (pass --track)' % name)
        return st.depthmax.get(name, 0)
    I['symx_max_depth'] = i_max_depth
    def i_reset_depth(E, st, fr, ins, args):
        name = E.cstring(st, args[0]).decode()
        st.depthmax[name] = 0
        return None
    I['symx_reset_depth'] = i_reset_depth
    def i_steps(E, st, fr, ins, args):
        return st.nsteps & 0xffffffff
    I['symx_steps'] = i_steps
    def i_isolated(E, st, fr, ins, args):
        fa, out, n = args[0], args[1], args[2]
        if type(fa) is not int or type(out) is not int or type(n) is not int:
            raise SymxError('symx_isolated needs concrete arguments')
        f = E.mod.funcs.get(E.mod.fbyaddr.get(fa))
        if f is None:
            raise SymxError('symx_isolated: not a function')
        snap = dict(st.objs)
        st.token = object()
        oo = E.find_obj(st, out)
        if oo is None:
            raise SymxError('symx_isolated: bad out pointer')
        keep = oo.base
        def restore(E, st, snap=snap, keep=keep):
            new = dict(snap)
            for b, o in st.objs.items():
                if o.kind == 'stack' or b == keep:
                    new[b] = o
            st.objs = new
            st.bases = sorted(new)
            st.token = object()
        E.push_frame(st, f, [out], -1)
        st.frames[-1].on_ret = restore
        return None
    I['symx_isolated'] = i_isolated

    # ---- symx API
    def i_u8(E, st, fr, ins, args):
        name = E.cstring(st, args[0]).decode()
        E.nsym += 1
        v = z3.BitVec('%s#%d' % (name, len(st.inputs)), 8)
        st.inputs.append((name, v))
        return v
    I['symx_u8'] = i_u8
    def i_i32(E, st, fr, ins, args):
        name = E.cstring(st, args[0]).decode()
        v = z3.BitVec('%s#%d' % (name, len(st.inputs)), 32)
        st.inputs.append((name, v))
        return v
    I['symx_i32'] = i_i32

    def tobool(v):
        if z3.is_bool(v):
            return v
        return v != 0

    def i_assume(E, st, fr, ins, args):
        c = args[0]
        if type(c) is int:
            if c == 0:
                st.killed = True
                raise PathEnd()
            return None
        if c is UNDEF:
            raise Violation('uninit', 'assume on uninitialised value')
        cond = z3.simplify(tobool(c))
        def ok(s): pass
        # encode as cond-fork where the false side dies immediately
        return ('cond', cond, ok, _kill_state)
    I['symx_assume'] = i_assume

    def i_assert(E, st, fr, ins, args):
        c = args[0]
        if type(args[1]) is not int:
            raise NeedConc(1)
        msg = E.cstring(st, args[1]).decode()
        if type(c) is int:
            if c == 0:
                st.failed = True
                E.report(st, 'assert', msg, E.model if E.model is not None else _model(E))
                if E.stop_on_first:
                    raise PathEnd()
            return None
        if c is UNDEF:
            raise Violation('uninit', 'assert on uninitialised value: ' + msg)
        cond = z3.simplify(tobool(c))
        if z3.is_true(cond):
            return None
        if E.check(z3.Not(cond)):
            E.report(st, 'assert', msg, E.solver.model())
            if E.stop_on_first:
                raise PathEnd()
            # continue on the side where it holds
            E.solver.add(cond)
            if not E.check():
                st.failed = True
                st.killed = True    # nothing of this path satisfies the assertion: it ends here
                raise PathEnd()
            E.model = E.solver.model()
        return None
    I['symx_assert'] = i_assert

    def i_conc(E, st, fr, ins, args):
        v = args[0]
        if type(v) is int:
            return v
        if v is UNDEF:
            raise Violation('uninit', 'concretize of uninitialised value')
        raise NeedConc(0, 4096)
    I['symx_conc'] = i_conc

    def i_reach(E, st, fr, ins, args):
        if type(args[0]) is not int:
            raise NeedConc(0)
        msg = E.cstring(st, args[0]).decode()
        if E.is_mine(st):
            E.reached[msg] = E.reached.get(msg, 0) + 1
        return None
    I['symx_reach'] = i_reach

    def i_note(E, st, fr, ins, args):
        st.notes.append(E.cstring(st, args[0]).decode())
        return None
    I['symx_note'] = i_note

    def i_abort(E, st, fr, ins, args):
        raise Violation('abort', 'abort/exit called')
    I['abort'] = i_abort
    def i_exit(E, st, fr, ins, args):
        raise PathEnd()
    I['exit'] = i_exit

    # ---- printf family (concrete formatting)
    def sym_cstring(E, st, addr, limit=1 << 16):
        """bytes of a NUL-terminated string; symbolic bytes are kept if the path condition excludes NUL"""
        c = E.conc_cstr(E, st, addr)
        if c is not None:
            return list(c)
        out = []
        while len(out) < limit:
            b = E.load(st, addr + len(out), 1)
            if b is UNDEF:
                raise Violation('uninit', 'uninitialised byte in a string being printed')
            if type(b) is int:
                if b == 0:
                    break
            elif E.check(b == 0):
                raise SymxError('printf %s: symbolic byte that may be NUL')
            out.append(b)
        return out

    def fmt(E, st, f, va, argbase=None):
        out = []
        i = 0
        ai = 0
        while i < len(f):
            c = f[i]
            if c != 37:
                out.append(c); i += 1; continue
            j = i + 1
            spec = ''
            while j < len(f) and chr(f[j]) in '-+ 0123456789.lhz':
                spec += chr(f[j]); j += 1
            conv = chr(f[j])
            i = j + 1
            if conv == '%':
                out.append(37); continue
            a = va[ai]; ai += 1
            flags = spec.replace('l', '').replace('h', '').replace('z', '')
            if conv == 's':
                if a is UNDEF:
                    raise Violation('uninit', 'printf %s of uninitialised pointer')
                s = sym_cstring(E, st, need_int(a, '%s arg'))
                txt = s
                if '.' in flags:
                    txt = s[:int(flags.split('.')[1] or 0)]
                out += txt
            elif conv in 'di':
                if type(a) is not int:
                    if a is UNDEF:
                        raise Violation('uninit', 'printf of uninitialised integer')
                    if argbase is None:
                        raise SymxError('symbolic %d argument')
                    raise NeedConc(argbase + ai - 1, 4096)
                bits = 64 if 'l' in spec else 32
                a &= mask(bits)
                if a >> (bits - 1): a -= 1 << bits
                out += list((('%' + flags + 'd') % a).encode())
            elif conv in 'ux':
                if type(a) is not int:
                    if a is UNDEF:
                        raise Violation('uninit', 'printf of uninitialised integer')
                    if argbase is None:
                        raise SymxError('symbolic %x argument')
                    raise NeedConc(argbase + ai - 1, 4096)
                bits = 64 if 'l' in spec else 32
                out += list((('%' + flags + conv) % (a & mask(bits))).encode())
            elif conv == 'c':
                if type(a) is not int:
                    if a is UNDEF:
                        raise Violation('uninit', 'printf of uninitialised integer')
                    if argbase is None:
                        raise SymxError('symbolic %c argument')
                    raise NeedConc(argbase + ai - 1, 4096)
                out.append(a & 255)
            else:
                raise SymxError('printf conversion %' + conv)
        return out

    def put_str(E, st, dst, data):
        for k, b in enumerate(data):
            E.store(st, dst + k, 1, b)

    def i_snprintf(E, st, fr, ins, args):
        dst, n, f = args[0], need_int(args[1], 'snprintf n'), args[2]
        s = fmt(E, st, E.cstring(st, need_int(f, 'fmt')), args[3:], 3)
        if n > 0:
            put_str(E, st, need_int(dst, 'snprintf dst'), s[:n - 1] + [0])
        return len(s)
    I['snprintf'] = i_snprintf
    def i_sprintf(E, st, fr, ins, args):
        s = fmt(E, st, E.cstring(st, need_int(args[1], 'fmt')), args[2:], 2)
        put_str(E, st, need_int(args[0], 'sprintf dst'), s + [0])
        return len(s)
    I['sprintf'] = i_sprintf
    def i_printf(E, st, fr, ins, args):
        s_ = fmt(E, st, E.cstring(st, need_int(args[0], 'fmt')), args[1:], 1)
        base = E.mod.gaddr.get('symx_stdout')
        if base is not None:
            lenaddr = E.mod.gaddr['symx_stdout_len']
            cur = E.load(st, lenaddr, 4)
            cap = st.objs[base].size
            data = s_[:max(0, cap - cur)]
            for k, b in enumerate(data):
                E.store(st, base + cur + k, 1, b)
            E.store(st, lenaddr, 4, cur + len(data))
        return len(s_)
    I['printf'] = i_printf
    I['env_printf'] = i_printf

    def i_va_start(E, st, fr, ins, args):
        st.valist[args[0]] = list(fr.varargs or [])
        return None
    I['llvm.va_start'] = i_va_start
    def i_vsnprintf(E, st, fr, ins, args):
        dst, n, f, ap = args
        va = st.valist.get(ap)
        if va is None:
            raise SymxError('vsnprintf with unknown va_list')
        s = fmt(E, st, E.cstring(st, need_int(f, 'fmt')), va)
        n = need_int(n, 'n')
        if n > 0:
            put_str(E, st, need_int(dst, 'dst'), s[:n - 1] + [0])
        return len(s)
    I['vsnprintf'] = i_vsnprintf

def _kill_state(s):
    # mark state as finished: empty frame list makes step loop raise PathEnd
    s.killed = True
    s.frames.clear()
    fr = Frame()
    fr.f = _DEAD.f; fr.regs = []; fr.pc = 0; fr.blk = 0; fr.prev = 0; fr.allocas = []; fr.dst = -1; fr.varargs = None; fr.on_ret = None
    s.frames.append(fr)

def _model(E):
    if E.check():
        return E.solver.model()
    return None

class _DeadFrame:
    pass
_DEAD = None

def make_dead(mod):
    global _DEAD
    f = Func()
    f.name = '<dead>'; f.params = []; f.nregs = 0; f.vararg = False; f.addr = 0
    f.code = [('ret', None)]
    f.blocks = [0]; f.labels = {}; f.regidx = {}
    fr = Frame()
    fr.f = f; fr.regs = []; fr.pc = 0; fr.blk = 0; fr.prev = 0; fr.allocas = []; fr.dst = -1; fr.varargs = None; fr.on_ret = None
    _DEAD = fr

def main():
    import argparse
    ap = argparse.ArgumentParser()
    ap.add_argument('ll')
    ap.add_argument('--entry', default='harness')
    ap.add_argument('--max-steps', type=int, default=20_000_000)
    ap.add_argument('--stop-on-first', action='store_true')
    ap.add_argument('--max-paths', type=int, default=10**9)
    ap.add_argument('--slice', default='0/1')
    ap.add_argument('--split-depth', type=int, default=6)
    ap.add_argument('--timeout', type=float, default=10**9)
    ap.add_argument('--track', default='')
    ap.add_argument('--samples', type=int, default=32)
    ap.add_argument('--out', default='-')
    ap.add_argument('--procs', type=int, default=1)
    ap.add_argument('-v', action='count', default=0)
    a = ap.parse_args()
    t0 = time.time()
    mod = Module()
    mod.load(open(a.ll).read())
    mod.finalize()
    make_dead(mod)
    t1 = time.time()
    E = Engine(mod, a.max_steps, a.stop_on_first, a.v)
    E.max_paths = a.max_paths
    E.slice, E.nslices = [int(x) for x in a.slice.split('/')]
    E.split_depth = a.split_depth
    E.deadline = time.time() + a.timeout
    E.track = set(x for x in a.track.split(',') if x)
    E.max_samples = a.samples
    if a.procs > 1:
        E.sem = multiprocessing.Semaphore(a.procs - 1)
        E.partbase = (a.out if a.out != '-' else '/tmp/symx.%d' % os.getpid())
    err = None
    try:
        E.run(a.entry)
    except SymxError as e:
        err = 'engine: %s' % e
        E.inconclusive.append({'kind': 'engine-error', 'msg': str(e)})
    except RecursionError as e:
        E.inconclusive.append({'kind': 'engine-error', 'msg': 'recursion: %s' % e})
    E.wait_kids()
    t2 = time.time()
    res = E.result()
    # merge the parts written by forked workers
    if E.partbase:
        import glob
        for pf in glob.glob(E.partbase + '.part.*'):
            try:
                d = json.load(open(pf))
            except Exception as e:
                res['inconclusive'].append({'kind': 'engine-error', 'msg': 'unreadable worker part %s: %s' % (pf, e)})
                continue
            finally:
                os.unlink(pf)
            for k in ('paths', 'completed', 'steps', 'queries', 'forks', 'assume_killed', 'budget_hits', 'spawned'):
                res[k] += d[k]
            res['solver_s'] += d['solver_s']
            res['max_path_steps'] = max(res['max_path_steps'], d['max_path_steps'])
            for k, v in d['reached'].items():
                res['reached'][k] = res['reached'].get(k, 0) + v
            for k, v in d['depth_seen'].items():
                res['depth_seen'][k] = max(res['depth_seen'].get(k, 0), v)
            res['funcs'] = sorted(set(res['funcs']) | set(d['funcs']))
            byk = {(v['kind'], v['msg'], tuple(v['stack'][:2])): v for v in res['violations']}
            for v in d['violations']:
                c = byk.get((v['kind'], v['msg'], tuple(v['stack'][:2])))
                if c is None:
                    res['violations'].append(v); byk[(v['kind'], v['msg'], tuple(v['stack'][:2]))] = v
                else:
                    c['count'] += v['count']; c['examples'] = (c['examples'] + v['examples'])[:4]
            res['inconclusive'] += d['inconclusive']
            res['samples'] += d['samples']
    import random
    random.Random(1).shuffle(res['samples'])
    res['samples'] = res['samples'][:a.samples]
    res['inconclusive'] = res['inconclusive'][:50]
    res.update({'parse_s': round(t1 - t0, 2), 'run_s': round(t2 - t1, 2), 'slice': a.slice, 'procs': a.procs})
    txt = json.dumps(res, indent=1)
    if a.out == '-':
        print(txt)
    else:
        open(a.out, 'w').write(txt)

if __name__ == '__main__':
    threading.stack_size(1024 * 1024 * 1024)
    t = threading.Thread(target=main)
    t.start()
    t.join()
