/*
 * C15: :g / :v visit each line of the original range that still exists exactly once, in increasing
 * order, never an inserted line, and run the command list exactly when the line matches (does not
 * match) at the time of the visit; the whole global is one undo step; a nested global applies to
 * the outer current line only.
 * Buffer of NL lines "<m><i>" (m in {a,b} symbolic: whether /a/ matches; i the line's identity),
 * symbolic range, g or v, command list from a menu.  Oracle: a model over line identities written
 * from the property text (not from ec_glob): for each original line still present, in order, run the
 * commands on the model if it matches now; a failing command aborts the global.
 */
#include "exh.h"
#ifndef NL
#define NL 4
#endif
static char *menu[] = {
	"d",			/* 0 */
	"s/a/b/",		/* 1 */
	"s/^/V/",		/* 2 */
	"-1d",			/* 3 */
	"+1d",			/* 4 */
	"a",			/* 5: + text block "N" */
	"d|pu",			/* 6 */
	"+1s/b/a/",		/* 7: makes the next line match before it is visited */
	"g/2/s/^/W/",		/* 8: nested global */
	"s/^/V/|-1d",		/* 9 */
	"+1s/a/b/",		/* 10: makes the next line stop matching */
	"$d",			/* 11: deletes behind (or at the end of) the range */
	"s/^/V/|$d",		/* 12 */
	".,+1g/2/s/^/W/",	/* 13: nested global with a range of its own */
	"-2s/^/>/|s/$/!/",	/* 14: the first command of the list fails on the first two lines; the second still runs and the global goes on */
	"+1s/$/\\\nZ/",		/* 15: splits the next line in two before it is visited; its first half is still that line */
};
#define NMENU 16
struct ml { int id; char t[12]; };
static struct ml L[NL * 2 + 40];
static int ln;
static void mdel(int i) { int k; for (k = i; k + 1 < ln; k++) L[k] = L[k + 1]; ln--; }
static void mins(int i, int id, const char *t) { int k; for (k = ln; k > i; k--) L[k] = L[k - 1]; L[i].id = id; strcpy(L[i].t, t); ln++; }
static int mfind(int id) { int i; for (i = 0; i < ln; i++) if (L[i].id == id) return i; return -1; }
static void msub(int i, char from, char to) { char *p = strchr(L[i].t, from); if (p) *p = to; }
static void mprefix(int i, char c) { memmove(L[i].t + 1, L[i].t, strlen(L[i].t) + 1); L[i].t[0] = c; }
static void msuffix(int i, char c) { int n = strlen(L[i].t); L[i].t[n] = c; L[i].t[n + 1] = 0; }
/* run menu command m with current line c on the model; returns 1 if the command fails */
static int mrun(int m, int c)
{
	switch (m) {
	case 0: mdel(c); return 0;
	case 1: msub(c, 'a', 'b'); return 0;
	case 2: mprefix(c, 'V'); return 0;
	case 3: if (c > 0) mdel(c - 1); return 0;	/* on the first line -1 is address 0: an empty range, nothing happens */
	case 4: if (c + 1 >= ln) return 1; mdel(c + 1); return 0;
	case 5: mins(c + 1, -1, "N"); return 0;
	case 6: {
		struct ml x = L[c];
		mdel(c);
		mins(c >= ln ? ln : c + 1, -1, x.t);	/* after the new current line, or at the end if there is none */
		return 0;
	}
	case 7: if (c + 1 >= ln) return 1; msub(c + 1, 'b', 'a'); return 0;
	case 8: if (strchr(L[c].t, '2')) mprefix(c, 'W'); return 0;
	case 9: mprefix(c, 'V'); if (c > 0) mdel(c - 1); return 0;
	case 10: if (c + 1 >= ln) return 1; msub(c + 1, 'a', 'b'); return 0;
	case 11: mdel(ln - 1); return 0;
	case 12: mprefix(c, 'V'); mdel(ln - 1); return 0;
	case 13:
		if (c + 1 >= ln) return 1;
		if (strchr(L[c].t, '2')) mprefix(c, 'W');
		if (strchr(L[c + 1].t, '2')) mprefix(c + 1, 'W');
		return 0;
	case 14: if (c >= 2) mprefix(c - 2, '>'); msuffix(c, '!'); return 0;
	case 15: if (c + 1 >= ln) return 1; mins(c + 2, -1, "Z"); return 0;
	}
	return 1;
}
void harness(void)
{
	char *files[] = {"f", NULL};
	static char text[NL * 4 + 1], want[NL * 16 + 256];
	char cmd[64], *got, *orig;
	static int ids[NL];
	int i, n = 0, beg, end, not, m, nid = 0, wl = 0;
	env_mkfile("f", "x\n", 2, 5);
	exh_start(files);
	for (i = 0; i < NL; i++) {
		unsigned char c = i < 5 ? symx_u8("m") : "ab"[i % 2];
		symx_assume(c == 'a' || c == 'b');
		text[n++] = c;
		text[n++] = '1' + i % 9;
		text[n++] = '\n';
		L[i].id = i;
		L[i].t[0] = c; L[i].t[1] = '1' + i % 9; L[i].t[2] = 0;
	}
	text[n] = 0;
	ln = NL;
	lbuf_edit(xb, text, 0, lbuf_len(xb));
	lbuf_saved(xb, 1);
	beg = symx_u8("beg");
	end = symx_u8("end");
#ifdef BIG
	/* a large buffer: the range is 1,NL or 3,NL-2, the commands are the ones that add lines */
	symx_assume(beg <= 1);
	beg = symx_conc(beg) ? 3 : 1;
	end = beg == 1 ? NL : NL - 2;
	(void) end;
#else
	symx_assume(beg >= 1 && beg <= end && end <= NL);
	beg = symx_conc(beg);
	end = symx_conc(end);
#endif
	not = symx_conc(symx_u8("not") % 3);	/* g, v, g! */
	m = symx_u8("cmd");
	symx_assume(m < NMENU);
#ifdef BIG
	symx_assume(m == 5 || m == 6 || m == 2);
#endif
	m = symx_conc(m);
	for (i = 0; i < 2 * NL && env_in_len + 8 < ENV_INSZ; i++)
		exh_input("N\n.\n");
	snprintf(cmd, sizeof(cmd), "%d,%d%s/a/%s", beg, end, not == 1 ? "v" : not == 2 ? "g!" : "g", menu[m]);
	symx_observe_mem("cmd", cmd, strlen(cmd) + 1);
	symx_observe_mem("text", text, n + 1);
	orig = exh_text();
	exh_cmd(cmd);
	/* the model */
	for (i = beg - 1; i < end; i++)
		ids[nid++] = i;
	for (i = 0; i < nid; i++) {
		int c = mfind(ids[i]);
		if (c < 0)
			continue;		/* the line is gone */
		if ((strchr(L[c].t, 'a') != NULL) == !not) {
			symx_reach("visit");
			if (mrun(m, c)) {
				symx_reach("abort");
				break;
			}
		}
	}
	for (i = 0; i < ln; i++) {
		strcpy(want + wl, L[i].t);
		wl += strlen(L[i].t);
		want[wl++] = '\n';
	}
	want[wl] = 0;
	got = exh_text();
	symx_observe_mem("got", got, strlen(got) + 1);
	symx_assert(!strcmp(got, want), "the buffer equals the model: each original line visited once, in order, when it matches at that time");
	/* one undo step */
	if (strcmp(got, orig)) {
		symx_reach("changed");
		symx_assert(exh_cmd("u") == 0, "undo after a global succeeds");
		symx_assert(exh_text_is(orig), "one undo takes back the whole global");
		symx_assert(exh_cmd("u") != 0, "nothing else to undo");
	}
	free(got);
	free(orig);
	symx_reach("end");
}
