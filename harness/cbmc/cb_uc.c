/* CBMC cross-check of C16-H1 on the C source of uc.c: all well-formed UTF-8 strings of <= N bytes */
#include <assert.h>
#include <string.h>
#include "vi.h"
#include "utf8ref.h"
#ifndef N
#define N 5
#endif
unsigned char nondet_uchar(void);
struct lbuf *ex_lbuf(void) { return 0; }
void cb_uc(void)
{
	unsigned char s[N + 1];
	int i, len, l, cnt = 0;
	for (i = 0; i < N; i++)
		s[i] = nondet_uchar();
	s[N] = 0;
	for (len = 0; s[len]; len++)
		;
	/* the validity predicate is assumed in full BEFORE the code under test runs */
	for (i = 0; i < len; i += l) {
		l = ref_valid_at(s, i, len);
		__CPROVER_assume(l > 0 && i + l <= len);
	}
	for (i = 0; i < len; i += l) {
		char *p = (char *) s + i;
		l = ref_valid_at(s, i, len);
		assert(uc_len(p) == l);
		assert(uc_code(p) == ref_code(s + i, l));
		assert(uc_next(p) == p + l);
		assert(uc_end(p) == p + l - 1);
		assert(uc_chr((char *) s, cnt) == p);
		assert(uc_off((char *) s, i) == cnt);
		assert(uc_prev((char *) s, uc_next(p)) == p);
		cnt++;
	}
	assert(uc_slen((char *) s) == cnt);
#ifdef WITNESS
	assert(0);
#endif
}
