/* CBMC cross-check of C17-H2: the bisection over the sorted range tables agrees with a linear scan,
 * for every code point (uc.c is included to reach the static tables) */
#include <assert.h>
#include "uc.c"
int nondet_int(void);
struct lbuf *ex_lbuf(void) { return 0; }
static int lin(int c, int tab[][2], int n)
{
	int i, in = 0;
	for (i = 0; i < n; i++)
		in |= (c >= tab[i][0]) & (c <= tab[i][1]);
	return in;
}
void cb_find(void)
{
	int c = nondet_int();
	__CPROVER_assume(c >= 0 && c <= 0x10ffff);
	assert(!!uc_isdw(c) == lin(c, dwchars, LEN(dwchars)));
	assert(!!uc_iszw(c) == lin(c, zwchars, LEN(zwchars)));
	assert(!!find(c, bchars, LEN(bchars)) == (c >= bchars[0][0] && lin(c, bchars, LEN(bchars))));
#ifdef WITNESS
	assert(0);
#endif
}
