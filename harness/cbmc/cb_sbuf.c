/* CBMC cross-check of C01-H4: one capacity step of sbuf.c from an arbitrary valid string buffer keeps room for
 * the terminator and never overflows int for sizes below 2^30 */
#include <assert.h>
#include <stdlib.h>
#include "sbuf.c"
int nondet_int(void);
struct lbuf *ex_lbuf(void) { return 0; }
void cb_sbuf(void)
{
	int n = nondet_int(), sz = nondet_int(), len = nondet_int(), nsz;
	__CPROVER_assume(n >= 0 && n < (1 << 29));
	__CPROVER_assume(sz >= 0 && sz < (1 << 29) && (sz == 0 ? n == 0 : n + 1 <= sz));
	__CPROVER_assume(len >= 0 && len < (1 << 29));
	/* the arithmetic of sbuf_mem(): grow when s_n + len + 1 >= s_sz */
	if (n + len + 1 >= sz) {
		nsz = NEXTSZ(sz, len + 1);
		assert(nsz >= n + len + 1);	/* room for the text and the terminator at index n + len */
		assert(nsz % SBUFSZ == 0);
	}
	/* sbuf_chr(): grow when s_n + 2 >= s_sz */
	if (n + 2 >= sz) {
		nsz = NEXTSZ(sz, 1);
		assert(nsz >= n + 2);	/* the character and the terminator */
	}
#ifdef WITNESS
	assert(0);
#endif
}
