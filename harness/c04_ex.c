/*
 * C04-H2: one undo step per ex command.  Two commands A, B from a menu (compound ones: global,
 * ranged substitute, multi-line append, delete-and-put on one line, commands joined by | whose last
 * part fails) on a 4-line buffer with symbolic letters, then u, u, redo, redo, redo(fail).
 * Oracle: the text after each undo/redo equals the snapshot taken between the commands.
 */
#include "exh.h"
#ifndef NCMD
#define NCMD 9
#endif
static char *menu[] = {
	"g/a/s/a/b/",
	"1,3s/x/y/",
	"2a",			/* + text block */
	"1,2d|pu",
	"%s/$/z/",
	"g/a/d",
	"1d|9p",		/* edits, then fails */
	"2s/b/B/|9d",		/* edits, then fails */
	"$d",
	"1,2c",			/* + text block */
	"3|1,2y|$pu",
	"v/x/s/^/#/",
};
#define NMENU (sizeof(menu) / sizeof(menu[0]))
static char snap[3][256];
static void take(char *d)
{
	char *s = exh_text();
	symx_assert(strlen(s) < 256, "snapshot fits");
	strcpy(d, s);
	free(s);
}
static void run(int c)
{
	if (c == 2 || c == 9)
		exh_input("n1\nn2\nn3\n.\n");
	exh_cmd(menu[c]);
}
void harness(void)
{
	char file[64];
	char *files[] = {"f", NULL};
	int i, a, b, n = 0;
	/* start the editor first (shared by all paths), then load four lines "<c1><c2>\n" with letters from {a,b,x}:
	 * whether g/a/, s/x/ match is the solver's choice */
	env_mkfile("f", "aa\n", 3, 5);
	exh_start(files);
	for (i = 0; i < 4; i++) {
		unsigned char c1 = symx_u8("c"), c2 = symx_u8("c");
		symx_assume((c1 == 'a' || c1 == 'b' || c1 == 'x') && (c2 == 'a' || c2 == 'b' || c2 == 'x'));
		file[n++] = c1; file[n++] = c2; file[n++] = '\n';
	}
	file[n] = 0;
	lbuf_edit(xb, file, 0, lbuf_len(xb));
	lbuf_saved(xb, 1);
	a = symx_u8("A");
	b = symx_u8("B");
	symx_assume(a < NMENU && b < NMENU);
#ifdef PAIRS_DIAGONAL
	symx_assume(b == (a + 1) % NMENU || b == (a + 5) % NMENU);
#endif
	a = symx_conc(a);
	b = symx_conc(b);
	take(snap[0]);
	run(a);
	take(snap[1]);
	run(b);
	take(snap[2]);
	symx_observe_mem("after", snap[2], strlen(snap[2]) + 1);
	if (strcmp(snap[1], snap[2])) {
		symx_reach("B-changed");
		symx_assert(exh_cmd("u") == 0, "undo of B succeeds");
		symx_assert(exh_text_is(snap[1]), "undo restores the text before B (one step per command)");
		if (strcmp(snap[0], snap[1])) {
			symx_reach("both-changed");
			symx_assert(exh_cmd("u") == 0, "undo of A succeeds");
			symx_assert(exh_text_is(snap[0]), "second undo restores the text before A");
			symx_assert(exh_cmd("u") != 0, "undo at the start of history fails");
			symx_assert(exh_text_is(snap[0]), "failed undo changes nothing");
			symx_assert(exh_cmd("redo") == 0, "redo of A succeeds");
			symx_assert(exh_text_is(snap[1]), "redo reinstates the text after A");
		}
		symx_assert(exh_cmd("redo") == 0, "redo of B succeeds");
		symx_assert(exh_text_is(snap[2]), "redo reinstates the text after B");
		symx_assert(exh_cmd("redo") != 0, "redo at the end of history fails");
		symx_assert(exh_text_is(snap[2]), "failed redo changes nothing");
	} else if (strcmp(snap[0], snap[1])) {
		/* B left the text as it was: either it logged nothing, or its edits cancel out (a step of its own) */
		symx_reach("only-A-changed");
		symx_assert(exh_cmd("u") == 0, "undo succeeds");
		if (!exh_text_is(snap[0])) {
			symx_assert(exh_text_is(snap[1]), "undo of a cancelling command restores the text before it");
			symx_assert(exh_cmd("u") == 0, "undo of A succeeds");
			symx_assert(exh_text_is(snap[0]), "second undo restores the text before A");
		}
		symx_assert(exh_cmd("u") != 0, "undo at the start of history fails");
	}
	symx_reach("end");
}
