/*
 * C02 / C20: histories of ex commands over several buffers.
 * K commands chosen by the solver from a menu (edits whose effect depends on symbolic text, undo,
 * redo, whole / partial / foreign writes, reload, switches by path, alias, number, + and -), then
 * a final q.  The harness includes ex.c to look at every open buffer, not only the current one.
 *
 * Ghost state per file: the stack of texts after each not-undone modifying command (as in C04),
 * the index of the state that is on disk, the current line, the buffer number.
 * Oracle C02: whenever a buffer's text differs from its file, q / e / b without ! are refused and
 *   no text changes, and the :b listing shows '*'; after a whole write or after undo/redo back to
 *   the saved state they are allowed.
 * Oracle C20: every command changes at most the current buffer's text; the buffer reached is the
 *   one named; text, current line, undo history of the others are as they were left; an open path
 *   is not re-read; q switches to a dirty buffer.
 */
#include "exh.h"
#include "ex.c"
#ifndef K
#define K 3
#endif
#ifndef NFILES
#define NFILES 3
#endif
#define TXT 96
#define DEPTH (2 * K + 4)
#define MAXF 17
static char fname[MAXF][8];
static struct ghost {
	char st[DEPTH][TXT];	/* texts after each not-undone modifying command; st[0] as loaded */
	int u, n;		/* current state, number of states above st[0] */
	int disk;		/* index of the state the file holds, -1 if none of them */
	int row;		/* current line when the buffer was left */
	int id;			/* buffer number */
	int open;
	int opens;		/* how often the file had been opened when last checked */
} G[MAXF];
static int cur, alt = -1, nids;
static int mru[MAXF], nmru;	/* most recently used order of the open buffers, mru[0] == cur */
static void mru_front(int f)
{
	int i, j;
	for (i = 0; i < nmru && mru[i] != f; i++)
		;
	if (i == nmru)
		nmru++;
	for (j = i; j > 0; j--)
		mru[j] = mru[j - 1];
	mru[0] = f;
	alt = nmru > 1 ? mru[1] : -1;
}
static void mru_drop(int f)
{
	int i;
	for (i = 0; i < nmru && mru[i] != f; i++)
		;
	if (i < nmru) {
		for (; i + 1 < nmru; i++)
			mru[i] = mru[i + 1];
		nmru--;
	}
	alt = nmru > 1 ? mru[1] : -1;
}

static char *menu[] = {
	"s/a/b/",	/* 0: changes line 1 iff it contains an a */
	"1d",		/* 1 */
	"$a",		/* 2: + text block */
	"u",		/* 3 */
	"redo",		/* 4 */
	"w",		/* 5 */
	"w! o",		/* 6: another path */
	"1w",		/* 7: partial write to the own path */
	"e!",		/* 8: reload */
	"e f%d",	/* 9: edit file N */
	"e #",		/* 10 */
	"b %d",		/* 11: buffer number N */
	"b +", "b -",	/* 12 13 */
	"2",		/* 14: move the current line */
	"1,$w",		/* 15: whole buffer written with an explicit range */
	"1d|w|$a",	/* 16: edit, save and edit again within one command line (+ text block) */
	"e! f%d",	/* 17: forced switch by path: leaves a modified buffer behind */
	"e! f%d",	/* 18: (same as 17) */
	"$a|w",		/* 19: edit and save within one command line (+ text block) */
	"b !",		/* 20: delete the current buffer */
};
#define NMENU 21

static int which(char *path)
{
	int i;
	for (i = 0; i < MAXF; i++)
		if (path && !strcmp(path, fname[i]))
			return i;
	return -1;
}
static struct buf *bufof(int f)
{
	int i;
	for (i = 0; i < LEN(bufs); i++)
		if (bufs[i].lb && bufs[i].path && !strcmp(bufs[i].path, fname[f]))
			return &bufs[i];
	return NULL;
}
static int text_eq(struct buf *b, char *want)
{
	char *s = lbuf_cp(b->lb, 0, lbuf_len(b->lb));
	int r = !strcmp(s, want);
	free(s);
	return r;
}
static int disk_eq(int f, char *txt)
{
	int i = env_find(fname[f]);
	long n = strlen(txt);
	if (i < 0 || !env_fs[i].exists)
		return n == 0;
	return env_fs[i].len == n && !memcmp(env_fs[i].data, txt, n);
}
static int nopens(int f) { int i = env_find(fname[f]); return i < 0 ? 0 : env_fs[i].opens; }
static int file_exists(int f) { int i = env_find(fname[f]); return i >= 0 && env_fs[i].exists; }
/* three cases per buffer: text != file (must be refused); at the saved position of its history (must be allowed);
 * text == file at another position of the history, e.g. after e! u (the editor may treat it as modified) */
static int dirty(int f) { return G[f].open && !disk_eq(f, G[f].st[G[f].u]); }
static int atsaved(int f) { return !G[f].open || G[f].disk == G[f].u; }
static int allatsaved(void) { int i; for (i = 0; i < MAXF; i++) if (!atsaved(i)) return 0; return 1; }
static int anydirty(void) { int i; for (i = 0; i < MAXF; i++) if (dirty(i)) return 1; return 0; }
static void push_text(int f, char *txt)
{
	struct ghost *g = &G[f];
	symx_assert(strlen(txt) < TXT && g->u + 1 < DEPTH, "ghost fits");
	g->u++;
	g->n = g->u;
	strcpy(g->st[g->u], txt);
	if (g->disk >= g->u)
		g->disk = -1;
}
static void push(int f)
{
	struct ghost *g = &G[f];
	char *s = lbuf_cp(xb, 0, lbuf_len(xb));
	symx_assert(strlen(s) < TXT && g->u + 1 < DEPTH, "ghost fits");
	g->u++;
	g->n = g->u;
	strcpy(g->st[g->u], s);
	if (g->disk > g->u - 1 && g->disk >= g->u)
		g->disk = -1;	/* the saved state was on the discarded redo branch */
	free(s);
}
static void opened(int f)
{
	struct ghost *g = &G[f];
	char *s = lbuf_cp(xb, 0, lbuf_len(xb));
	memset(g, 0, sizeof(*g));
	strcpy(g->st[0], s);
	free(s);
	g->open = 1;
	g->id = ++nids;
	g->disk = 0;
	g->opens = nopens(f);
}
/* all buffers other than the current one are exactly as they were left */
static void others_untouched(void)
{
	int f;
	for (f = 0; f < MAXF; f++) {
		struct buf *b;
		if (!G[f].open)
			continue;
		b = bufof(f);
		symx_assert(b != NULL, "an open buffer stays in the table");
		if (!b)
			continue;
		symx_assert(text_eq(b, G[f].st[G[f].u]), f == cur ? "the current buffer holds the expected text" : "another buffer's text is unchanged");
		symx_assert(b->id == G[f].id, "buffer numbers are stable");
		if (f != cur)
			symx_assert(b->row == G[f].row, "another buffer's current line is unchanged");
	}
}
static void listing_shows_dirty(void)
{
	int f;
	exh_out_reset();
	exh_cmd("b");
	for (f = 0; f < MAXF; f++) {
		char pat[16];
		char *o, *p;
		if (!dirty(f))
			continue;
		/* the listing prints "<id> <alias> <path> <flag>" lines without separators in -s mode */
		snprintf(pat, sizeof(pat), " %s *", fname[f]);
		o = exh_out();
		p = strstr(o, pat);
		symx_assert(p != NULL, "the buffer listing flags a buffer whose text differs from its file");
	}
}
/* run one command (c < 0: the final q) and check it against the ghost */
static void step(int c, int N)
{
	int st, f, i, wasdirty, maybe, rowbefore, target = -1, prevalt = alt;
	char line[32];
	char *before;
	if (c == 20)
		symx_assume(nmru >= 2);
	if ((c == 9 || c == 17 || c == 18) && nmru == 16 && !G[N - 1].open)
		symx_assume(!dirty(mru[15]));	/* a 17th file recycles the oldest slot unchecked: outside the 16-buffer bound */
	wasdirty = dirty(cur);
	maybe = !wasdirty && !atsaved(cur);
	rowbefore = xrow;
	before = exh_text();
	if (c == 2 || c == 16 || c == 19)
		exh_input("new\n.\n");
	exh_out_reset();
	if (c < 0)
		strcpy(line, "q");
	else
		snprintf(line, sizeof(line), menu[c], N);
	st = exh_cmd(line);
	f = which(ex_path());
	symx_assert(f >= 0, "the current path is one of the files");
	if (f < 0)
		return;
	if (c < 0) {
		if (anydirty()) {
			symx_reach("quit-refused");
			symx_assert(xquit == 0, "q is refused while some buffer differs from its file");
			symx_assert(dirty(f) || G[f].disk != G[f].u, "a refused q switches to a buffer that is not at its saved state");
			if (f != cur) {
				G[cur].row = rowbefore;
				cur = f;
				mru_front(f);
			}
		} else {
			symx_reach("quit-allowed");
			if (allatsaved())
				symx_assert(xquit == 1, "q exits when every buffer is at its saved state");
			else if (xquit == 0) {	/* some buffer holds the text of its file at another position of its history */
				symx_assert(!atsaved(f), "a refused q switches to a buffer that is not at its saved state");
				if (f != cur) {
					G[cur].row = rowbefore;
					cur = f;
					mru_front(f);
				}
			}
		}
		others_untouched();
		free(before);
		return;
	}
	switch (c) {
	case 0: case 1: case 2:
		symx_assert(f == cur, "an edit does not switch buffers");
		if (!exh_text_is(before))
			push(cur);
		break;
	case 3:
		symx_assert(f == cur, "undo does not switch buffers");
		if (G[cur].u > 0) {
			symx_assert(st == 0, "undo succeeds");
			G[cur].u--;
		} else {
			symx_assert(st != 0, "undo at the start of history fails");
		}
		break;
	case 4:
		if (G[cur].u < G[cur].n) {
			symx_assert(st == 0, "redo succeeds");
			G[cur].u++;
		} else {
			symx_assert(st != 0, "redo at the end of history fails");
		}
		break;
	case 5: case 15:
		if (c == 15 && lbuf_len(xb) == 0)
			break;		/* 1,$ does not resolve in an empty buffer */
		symx_assert(st == 0, "w succeeds");
		symx_assert(disk_eq(cur, before), "after w the file holds the buffer");
		G[cur].disk = G[cur].u;
		G[cur].opens = nopens(cur);
		break;
	case 6:
		symx_assert(st == 0, "w! o succeeds");
		break;
	case 16:	/* 1d | w | $a: the w in the middle closes an undo step; the file holds the middle state */
		symx_assert(f == cur && st == 0, "compound command succeeds");
		if (before[0]) {
			char *nl = strchr(before, '\n');
			push_text(cur, nl ? nl + 1 : "");	/* after 1d */
		}
		G[cur].disk = G[cur].u;
		push(cur);				/* after $a */
		G[cur].opens = nopens(cur);
		symx_assert(!disk_eq(cur, G[cur].st[G[cur].u]), "the text after the last edit differs from what w wrote");
		break;
	case 19:	/* $a | w */
		symx_assert(f == cur && st == 0, "compound command succeeds");
		push(cur);
		G[cur].disk = G[cur].u;
		G[cur].opens = nopens(cur);
		break;
	case 7:
		if (lbuf_len(xb) >= 1) {
			symx_assert(st == 0, "1w succeeds");
			G[cur].disk = lbuf_len(xb) == 1 ? G[cur].u : -1;
			G[cur].opens = nopens(cur);
		}
		break;
	case 8:		/* e! without a path: the file replaces the text as one more (undoable) edit, and counts as saved */
		symx_assert(f == cur, "e! stays on the file");
		if (!file_exists(cur)) {	/* nothing to reload: no edit, no new history step; a modified buffer stays modified */
			symx_reach("reload-missing");
			if (!atsaved(cur)) {
				symx_assert(st != 0, "e! of a modified buffer whose file does not exist fails");
				symx_assert(exh_text_is(before), "a failed e! keeps the text");
			} else {
				G[cur].disk = G[cur].u;
			}
			break;
		}
		symx_assert(st == 0, "e! succeeds");
		push(cur);
		G[cur].disk = G[cur].u;
		G[cur].opens = nopens(cur);
		symx_assert(disk_eq(cur, G[cur].st[G[cur].u]), "after e! the buffer holds the file");
		break;
	case 9: case 17: case 18:
		target = N - 1;
		break;
	case 10:
		target = prevalt;
		break;
	case 11:
		for (i = 0; i < MAXF; i++)
			if (G[i].open && G[i].id == N)
				target = i;
		break;
	case 12: case 13:	/* next / previous buffer number */
		for (i = 0; i < MAXF; i++)
			if (G[i].open && (c == 12 ? G[i].id > G[cur].id : G[i].id < G[cur].id))
				if (target < 0 || (c == 12 ? G[i].id < G[target].id : G[i].id > G[target].id))
					target = i;
		break;
	case 14:
		symx_assert(f == cur, "a line-number command does not switch buffers");
		break;
	case 20:	/* b !: the current buffer goes away, the alternate becomes current */
		symx_reach("deleted");
		G[cur].open = 0;
		mru_drop(cur);
		symx_assert(f == mru[0], "after deleting a buffer the most recently used other buffer is current");
		cur = mru[0];
		symx_assert(xrow == G[cur].row, "the current line of a revisited buffer is as it was left");
		break;
	}
	if ((c >= 9 && c <= 13) || c == 17 || c == 18) {
		int forced = c == 17 || c == 18;
		if (target < 0 || (c >= 10 && c != 17 && c != 18 && !G[target].open)) {
			symx_reach("no-such-buffer");
			symx_assert(f == cur, "a switch to a buffer that does not exist stays put");
		} else if ((wasdirty || (maybe && st != 0 && f == cur)) && target != cur && !forced) {
			symx_reach("switch-refused");
			symx_assert(st != 0 && f == cur, "e / b without ! are refused while the buffer differs from its file");
			symx_assert(exh_text_is(before), "a refused switch discards nothing");
		} else if (wasdirty && target == cur && (c == 9 || c == 17 || c == 18)) {
			symx_assert(f == cur && exh_text_is(before), "re-editing the own path keeps unsaved text");
		} else {
			symx_reach("switched");
			symx_assert(f == target, "the buffer reached is the one named");
			if (f == target && target != cur) {
				G[cur].row = rowbefore;
				cur = target;
				if (!G[cur].open) {
					if (nmru == 16) {	/* the table is full: the least recently used buffer is recycled */
						int lru = mru[15];
						symx_reach("evicted");
						G[lru].open = 0;
						mru_drop(lru);
					}
					opened(cur);
					mru_front(cur);
				} else {
					mru_front(cur);
					symx_reach("revisited");
					symx_assert(nopens(cur) == G[cur].opens, "an open path is not read again");
					symx_assert(xrow == G[cur].row, "the current line of a revisited buffer is as it was left");
				}
			}
		}
	}
	others_untouched();
	listing_shows_dirty();
	free(before);
}

void harness(void)
{
	char *files[] = {"f1", NULL};
	char content[16];
	int i, k, setup = 0;
	for (i = 0; i < MAXF; i++)
		snprintf(fname[i], sizeof(fname[i]), "f%d", i + 1);
	/* start the editor first (shared by all paths); the files get their symbolic first letters afterwards */
	env_mkfile(fname[0], "ax1\nl2\nl3\n", 10, 5);
	exh_start(files);
	for (i = 0; i < NFILES && i < MAXF; i++) {
		unsigned char c = i < 4 ? symx_u8("c") : 'a';
		symx_assume(c == 'a' || c == 'b');
		snprintf(content, sizeof(content), "%cx%d\nl2\nl3\n", c, i + 1);
		env_mkfile(fname[i], content, strlen(content), 5);
		if (i == 0) {
			lbuf_edit(xb, content, 0, lbuf_len(xb));
			lbuf_saved(xb, 1);
		}
	}
	cur = 0;
	opened(0);
	mru_front(0);
#ifdef PREOPEN
	/* fill the buffer table: an edit in the first buffers, then open the rest */
	setup = symx_u8("setup");
	symx_assume(setup < 3);
	setup = symx_conc(setup);
	if (setup == 1) {
		step(1, 1);		/* 1d in f1, then leave it behind modified */
		step(17, 2);
	} else {
		step(9, 2);
	}
	for (i = 3; i <= PREOPEN; i++)
		step(9, i);
	/* setup 2: a jump by number and back, so that the most-recently-used order of the table is not the order
	 * of the buffer numbers; the commands that follow are then the buffer commands only */
	if (setup == 2) {
		step(11, 1);
		step(11, PREOPEN);
		symx_reach("hopped");
	}
	symx_reach("table-full");
#else
	/* optionally the second file is already open (visited and left again) when the history starts */
	if (symx_conc(symx_u8("second_open") & 1)) {
		step(9, 2);
		step(9, 1);
		symx_reach("second-open");
	}
#endif
	for (k = 0; k < K; k++) {
		int c = symx_u8("cmd"), N = symx_u8("N");
		symx_assume(c < NMENU);
#ifdef PREOPEN
		symx_assume(N == 1 || N == 2 || N == PREOPEN - 1 || N == PREOPEN || N == PREOPEN + 1);
		symx_assume(setup != 2 || c >= 9);
#else
		symx_assume(N >= 1 && N <= NFILES + 1 && N <= 4);
#endif
		c = symx_conc(c);
		N = (c == 9 || c == 11 || c == 17 || c == 18) ? symx_conc(N) : 1;
		step(c, N);
	}
	step(-1, 0);
	symx_observe("xquit", xquit);
	symx_reach("end");
}
