/*
 * C13-H1: lbuf_search() lands on the first match after / last match before the cursor, no wrap.
 * Buffer of NLN lines of <= LL character slots, symbolic cursor (row, character offset), symbolic
 * direction, pattern from a template with symbolic placeholder characters.
 * Oracle: candidates are judged by the reference matcher against the WHOLE line.  Forward: the
 * leftmost match that begins after the cursor character on its line, else the first match of the
 * nearest following line that has one.  Backward: the last of the successive (left to right,
 * non-overlapping) matches that begin before the cursor, else the last successive match of the
 * nearest preceding line that has one.  Nothing found: return 1, position unchanged.  No wrap.
 * A match may begin on the line terminator (as $ does; the repository's test v17 relies on it); the
 * left-to-right enumeration of successive matches stops when it reaches the terminator.
 */
#include <stdlib.h>
#include <string.h>
#include "vi.h"
#include "slots.h"
#include "ref_re.h"
static struct lbuf *LB;
struct lbuf *ex_lbuf(void) { return LB; }
int xic;
#ifndef LL
#define LL 3
#endif
#ifndef NLN
#define NLN 2
#endif
static const char *T[] = {"x", "xy", "^x", "x$", "x*", "^", "$", "(x|y)", "x|y", ".", "x+", "\\<x", "x\\>", NULL};
#define CLS (SL_ASCII | SL_2B)
static char lines[NLN][LL * 4 + 2];
static int nch[NLN], blen[NLN];

static int chars_before(char *s, int off)	/* characters in s[0..off) */
{
	int n = 0, i;
	for (i = 0; i < off; i++)
		n += ((unsigned char) s[i] & 0xc0) != 0x80;
	return n;
}
/* successive matches on line r: returns how many; the (character) starts and lengths in st[], ln[] */
static int successive(int r, int *st, int *ln)
{
	int n = 0, pos = 0, len = blen[r];
	ref_setline(lines[r], xic, 0, 0);
	while ((pos < len || (len == 0 && n == 0)) && n < 8) {	/* the scan stops when it reaches the terminator (an empty line is scanned once) */
		int s, e = -1;
		for (s = pos; s <= len; s += s < len ? m_clen(s) : 1)	/* a match may begin on the terminator ($) */
			if ((e = ref_match_at(s)) >= 0)
				break;
		if (e < 0)
			break;
		st[n] = chars_before(lines[r], s);
		ln[n] = chars_before(lines[r] + s, e - s);
		n++;
		if (s >= len)
			break;
		pos = e > s ? e : s + m_clen(s);
	}
	return n;
}
void harness(void)
{
	char pat[32];
	int t, nt, i, r0, o0, dir, r, o, len = -1, ret, wr = -1, wo = -1, wl = -1, st[8], ln[8], n;
	for (nt = 0; T[nt]; nt++)
		;
	t = symx_u8("tmpl");
	symx_assume(t < nt);
#ifdef TMASK
	symx_assume((TMASK >> t) & 1);
#endif
	t = symx_conc(t);
	for (i = 0; i < 2; i++) {
		char b[8];
		int l;
		if (!strchr(T[t], "xy"[i])) {
			R_ph[i] = 'q';
			continue;
		}
		l = slot_gen(b, "ph", CLS, "ab");
		b[l] = 0;
		ref_setline(b, 0, 0, 0);
		R_ph[i] = m_cp(0);
	}
	symx_assert(ref_parse(T[t]) == 0, "template parses");
	ref_pattern(T[t], pat);
	LB = lbuf_make();
	for (i = 0; i < NLN; i++) {
		blen[i] = slots_text(lines[i], "ln", LL, CLS, "ab ", &nch[i]);
		lines[i][blen[i]] = '\n';
		lines[i][blen[i] + 1] = 0;
		lbuf_edit(LB, lines[i], i, i);
	}
	r0 = symx_u8("row");
	o0 = symx_u8("off");
	symx_assume(r0 < NLN);
	r0 = symx_conc(r0);
	symx_assume(o0 < (nch[r0] ? nch[r0] : 1));
	o0 = symx_conc(o0);
	dir = symx_conc(symx_u8("dir") & 1) ? 1 : -1;
#ifdef SYMIC
	xic = symx_conc(symx_u8("ic") & 1);
#endif
	symx_observe_mem("pat", pat, strlen(pat) + 1);
	r = r0;
	o = o0;
	ret = lbuf_search(LB, pat, dir, &r, &o, &len);
	symx_observe("ret", ret);
	symx_observe("r", r);
	symx_observe("o", o);
	/* the reference */
	if (dir > 0) {
		for (i = r0; i < NLN && wr < 0; i++) {
			int k;
			n = successive(i, st, ln);
			/* successive() enumerates non-overlapping matches from the line start; the first match that
			 * begins after the cursor is the leftmost start > o0 at which ANY match exists */
			ref_setline(lines[i], xic, 0, 0);
			{
				int s, cidx = 0, e;
				for (s = 0; s <= blen[i]; s += s < blen[i] ? m_clen(s) : 1, cidx++) {
					if (i == r0 && cidx <= o0)
						continue;
					if ((e = ref_match_at(s)) >= 0) {
						wr = i;
						wo = cidx;
						wl = chars_before(lines[i] + s, e - s);
						break;
					}
				}
			}
			(void) k;
		}
	} else {
		for (i = r0; i >= 0 && wr < 0; i--) {
			int k;
			n = successive(i, st, ln);
			for (k = 0; k < n; k++)
				if (i != r0 || st[k] < o0) {
					wr = i;
					wo = st[k];
					wl = ln[k];
				}
		}
	}
	if (wr < 0) {
		symx_reach("notfound");
		symx_assert(ret != 0, "nothing to find: the search fails");
		symx_assert(r == r0 && o == o0, "nothing found: the position is unchanged");
	} else {
		const char *lab = "the search lands on the reference match";
		symx_reach("found");
		symx_assert(ret == 0, "an existing match is found");
		if (ret == 0) {
			symx_assert(r == wr && o == wo, lab);
			if (r == wr && o == wo)
				symx_assert(len == wl, "the reported match length is that of the match");
		}
	}
	lbuf_free(LB);
	symx_reach("end");
}
