/*
 * C11-H1: every pattern string of <= PN bytes over the metacharacter alphabet (plus one byte that
 * is free over 1..255 in thorough mode) is either rejected or compiled into a program that fits
 * its allocation (the engine checks every store), and matching it against a family of lines
 * terminates with offsets 0 <= so <= eo <= len on character boundaries.
 * Both entry points are driven: rstr_make() (what / ? :s :g use) and regcomp() directly.
 */
#include <string.h>
#include <stdlib.h>
#include "vi.h"
#include "regex.h"
#include "slots.h"
#ifndef PN
#define PN 3
#endif
static const char ALPHA[] = "a()|*+?{},019[]^$\\.-:<>";
static char *LINES[] = {"\n", "a\n", "a1\n", "aa a\n", "\xc3\xa9-a\n", "a\xe4\xb8\xad\xf0\x9f\x98\x80\n"};
#define NLINES (sizeof(LINES) / sizeof(LINES[0]))
static int boundary(const char *s, int off)
{
	return ((unsigned char) s[off] & 0xc0) != 0x80;
}
void harness(void)
{
	char pat[PN + 1];
	int i, n, l, flg, cf;
	struct rstr *rs;
	regex_t re;
	n = symx_u8("n");
	symx_assume(n >= 1 && n <= PN);
	n = symx_conc(n);
	for (i = 0; i < n; i++) {
		pat[i] = symx_u8("p");
#ifdef FREEBYTE
		if (i == FREEBYTE)
			symx_assume(pat[i] != 0);
		else
#endif
		symx_assume(sl_in(pat[i], ALPHA));
	}
	pat[n] = 0;
	cf = symx_u8("icase") & 1 ? RE_ICASE : 0;
	flg = (symx_u8("notbol") & 1 ? RE_NOTBOL : 0) | (symx_u8("noteol") & 1 ? RE_NOTEOL : 0);
	rs = rstr_make(pat, cf);
	if (rs) {
		symx_reach("compiled");
		for (l = 0; l < NLINES; l++) {
			int g[8], len = strlen(LINES[l]), r;
			for (i = 0; i < 8; i++)
				g[i] = -7;
			r = rstr_find(rs, LINES[l], 4, g, flg);
			if (r >= 0) {
				symx_reach("matched");
				symx_assert(0 <= g[0] && g[0] <= g[1] && g[1] <= len, "0 <= start <= end <= length");
				symx_assert(boundary(LINES[l], g[0]) && boundary(LINES[l], g[1]), "offsets on character boundaries");
				for (i = 1; i < 4; i++)
					symx_assert((g[2 * i] == -1 && g[2 * i + 1] == -1) ||
						(0 <= g[2 * i] && g[2 * i] <= g[2 * i + 1] && g[2 * i + 1] <= len), "group unset or inside the line");
			}
		}
		rstr_free(rs);
	} else {
		symx_reach("rejected");
	}
	if (!regcomp(&re, pat, REG_EXTENDED | (cf ? REG_ICASE : 0))) {
		for (l = 0; l < NLINES; l++) {
			regmatch_t m[3];
			int len = strlen(LINES[l]);
			if (!regexec(&re, LINES[l], 3, m, REG_NEWLINE | (flg & RE_NOTBOL ? REG_NOTBOL : 0) | (flg & RE_NOTEOL ? REG_NOTEOL : 0))) {
				symx_assert(0 <= m[0].rm_so && m[0].rm_so <= m[0].rm_eo && m[0].rm_eo <= len, "regexec: 0 <= start <= end <= length");
				symx_assert(boundary(LINES[l], m[0].rm_so) && boundary(LINES[l], m[0].rm_eo), "regexec: offsets on character boundaries");
			}
		}
		regfree(&re);
	}
	symx_reach("end");
}
