/*
 * C13-H2: / ? n N (with a count, with an empty pattern that reuses the last one, and ^A) in the real
 * editor.  A fixed buffer with eight occurrences of "ab"; symbolic start position; K search commands
 * chosen by the solver; then a marker is typed at the cursor.  Model: the sorted list of occurrences;
 * forward = first one after the cursor, backward = last one before it, no wrap-around; n repeats in the
 * direction of the last / or ?, N in the opposite one; a search that finds nothing leaves the cursor;
 * /ab/+1 lands on the line after the match and n, N keep that line offset, ^A does not.
 */
#include "vih.h"
#ifndef K
#define K 2
#endif
static const char *FILE0 = "ab x ab\ncab ab\nababab\nab\nb/ b\\\n";	/* adjacent occurrences too; the last line is for a pattern ending in an escaped backslash */
#define NOCC 8
static const int occ[NOCC][2] = {{0, 0}, {0, 5}, {1, 1}, {1, 4}, {2, 0}, {2, 2}, {2, 4}, {3, 0}};
static const int linelen[5] = {7, 6, 6, 2, 5};
static int fwd(int *r, int *o)
{
	int i;
	for (i = 0; i < NOCC; i++)
		if (occ[i][0] > *r || (occ[i][0] == *r && occ[i][1] > *o)) {
			*r = occ[i][0]; *o = occ[i][1];
			return 0;
		}
	return 1;
}
static int bwd(int *r, int *o)
{
	int i;
	for (i = NOCC - 1; i >= 0; i--)
		if (occ[i][0] < *r || (occ[i][0] == *r && occ[i][1] < *o)) {
			*r = occ[i][0]; *o = occ[i][1];
			return 0;
		}
	return 1;
}
/* ^A: the word under the cursor, searched forward as a whole word (no line offset whatever the last search had) */
static const char *LN[5] = {"ab x ab", "cab ab", "ababab", "ab", "b/ b\\"};
static int wordch(int c) { return (c >= 'a' && c <= 'z') || (c >= 'A' && c <= 'Z') || (c >= '0' && c <= '9') || c == '_'; }
static int curword_fwd(int *r, int *o)
{
	const char *l = LN[*r];
	int b = *o, e = *o, i, j, wl;
	while (wordch(l[e]))
		e++;
	while (b > 0 && wordch(l[b - 1]))	/* (a word that ends just before the cursor counts, as in vi_curword) */
		b--;
	if (b >= e)
		return 1;
	wl = e - b;
	for (i = *r; i < 5; i++)
		for (j = i == *r ? *o + 1 : 0; LN[i][j]; j++)
			if (!strncmp(LN[i] + j, l + b, wl) && (j == 0 || !wordch(LN[i][j - 1])) && !wordch(LN[i][j + wl])) {
				*r = i; *o = j;
				return 0;
			}
	return 1;
}
void harness(void)
{
	static const char *menu[] = {"/ab\n", "?ab\n", "n", "N", "/\n", "?\n", "2n", "2N", "2/ab\n", "/b\\\\/\n", "/ab/+1\n", "\001"};
	char keys[96];
	int kn, r, o, k, dir = 0, set = 0, i, soset = 0;
	env_mkfile("f", FILE0, strlen(FILE0), 5);
	r = symx_conc(symx_u8("row") % 5);
	o = symx_u8("off");
	symx_assume(o < linelen[r]);
	o = symx_conc(o);
	kn = sprintf(keys, "%dG%d|", r + 1, o + 1);
	for (k = 0; k < K; k++) {
		int c = symx_u8("cmd"), n = 1, d;
		symx_assume(c < 12 && (set || c < 2 || c >= 8));	/* the first search must give a pattern */
		symx_assume((c != 9 && c != 11) || k == K - 1);		/* the backslash pattern and ^A (they change the pattern) only as the last search */
		c = symx_conc(c);
		kn += sprintf(keys + kn, "%s", menu[c]);
		if (c == 11) {		/* ^A */
			curword_fwd(&r, &o);
			continue;
		}
		if (c == 0 || c == 1 || c == 4 || c == 5 || c == 8 || c == 9)
			soset = 0;	/* a search typed without a line offset */
		if (c == 10) { dir = 1; soset = 1; }
		if (c == 0 || c == 4 || c == 8) dir = 1;
		if (c == 1 || c == 5) dir = -1;
		set = 1;
		d = (c == 3 || c == 7) ? -dir : dir;
		if (c == 6 || c == 7 || c == 8) n = 2;
		if (c == 9) {	/* /b\\/ : the pattern is b followed by a backslash, found once, at (4,3) */
			if (r < 4 || (r == 4 && o < 3)) { r = 4; o = 3; }
			continue;
		}
		{
			int tr = r, to = o, fail = 0;
			for (i = 0; i < n && !fail; i++)
				fail = d > 0 ? fwd(&tr, &to) : bwd(&tr, &to);
			if (!fail && soset) {	/* /ab/+1: the line after the match, at its first non-blank character */
				if (tr + 1 >= 5)
					fail = 1;
				else { tr++; to = 0; }
			}
			if (!fail) { r = tr; o = to; }	/* a count that cannot be satisfied leaves the cursor */
		}
	}
	kn += sprintf(keys + kn, "iX\033:w\n:q\n");
	vih_keys(keys, kn);
	symx_observe_mem("keys", keys, kn);
	env_lines = "6";
	env_columns = "30";
	env_exinit = "set nohl | set noru | set noic";
	vih_run_vi("f");
	{
		char *got = vih_file("f");
		int glen = vih_filelen("f"), gr = 0, go = 0, p, x = -1;
		for (p = 0; p < glen; p++)
			if (got[p] == 'X')
				x = p;
		symx_assert(x >= 0 && glen == (int) strlen(FILE0) + 1, "only the marker was added");
		if (x < 0)
			return;
		for (p = 0; p < x; p++) {
			if (got[p] == '\n') { gr++; go = 0; }
			else go++;
		}
		symx_observe("row", gr);
		symx_observe("off", go);
		symx_assert(gr == r && go == o, "the search sequence ends on the occurrence the model says");
	}
	symx_reach("end");
}
