/*
 * C16-H1: UTF-8 character arithmetic of uc.c against code-point segmentation.
 * Symbolic: every byte of a NUL-terminated string of up to N bytes; assumed
 * (before any code under test runs) to be well-formed UTF-8.  One 4-byte slot
 * therefore covers every scalar value U+10000..U+10FFFF, etc.
 */
#include <string.h>
#include <stdlib.h>
#include "vi.h"
#include "symx.h"
#include "utf8ref.h"
#ifndef N
#define N 5
#endif
void harness(void)
{
	unsigned char s[N + 1];
	int beg[N + 2];		/* byte offset of each character */
	int i, cnt = 0, len, l, nn;
	char **chop;
	for (i = 0; i < N; i++)
		s[i] = symx_u8("b");
	s[N] = 0;
	len = strlen((char *) s);
	for (i = 0; i < len; i += l) {
		l = ref_valid_at(s, i, len);
		symx_assume(l > 0 && i + l <= len);
	}
	symx_observe_mem("s", s, N + 1);
	for (i = 0; i < len; i += l) {
		char *p = (char *) s + i;
		l = ref_valid_at(s, i, len);
		beg[cnt] = i;
		symx_assert(uc_len(p) == l, "uc_len == sequence length");
		symx_assert(uc_code(p) == ref_code(s + i, l), "uc_code == scalar value");
		symx_assert(uc_end(p) == p + l - 1, "uc_end is the last byte");
		symx_assert(uc_next(p) == p + l, "uc_next is the next character");
		symx_assert(uc_chr((char *) s, cnt) == p, "uc_chr(n) is the n-th character");
		symx_assert(uc_off((char *) s, i) == cnt, "uc_off(byte offset) == character index");
		symx_assert(uc_beg((char *) s, p + l - 1) == p, "uc_beg from the last byte");
		if (i > 0) {
			symx_assert(uc_next(uc_prev((char *) s, p)) == p, "next(prev(p)) == p");
			symx_assert(uc_prev((char *) s, p) == (char *) s + beg[cnt - 1], "uc_prev is the previous character");
		}
		symx_assert(uc_prev((char *) s, uc_next(p)) == p, "prev(next(p)) == p");
		cnt++;
	}
	beg[cnt] = len;
	symx_assert(uc_slen((char *) s) == cnt, "uc_slen == number of code points");
	symx_assert(uc_chr((char *) s, cnt) == (char *) s + len, "uc_chr(len) is the terminator");
	symx_assert(uc_off((char *) s, len) == cnt, "uc_off(end)");
	symx_observe("cnt", cnt);
	/* uc_chop: pointers to every character plus the terminator */
	chop = uc_chop((char *) s, &nn);
	symx_assert(nn == cnt, "uc_chop count");
	for (i = 0; i <= cnt && i <= nn; i++)
		symx_assert(chop[i] == (char *) s + beg[i], "uc_chop boundaries");
	free(chop);
	/* uc_sub over a symbolic character range */
	{
		int a = symx_u8("a"), b = symx_u8("b2");
		char *sub;
		symx_assume(a <= b && b <= cnt);
		a = symx_conc(a);
		b = symx_conc(b);
		sub = uc_sub((char *) s, a, b);
		symx_assert((int) strlen(sub) == beg[b] - beg[a], "uc_sub length");
		symx_assert(!memcmp(sub, s + beg[a], beg[b] - beg[a]), "uc_sub bytes");
		symx_assert(ref_valid((unsigned char *) sub, strlen(sub)), "uc_sub is valid UTF-8");
		free(sub);
	}
	symx_reach("end");
}
