/*
 * C05-H3: no memory error, crash or hang for any stream of vi keys.
 * NK symbolic keys (every byte 1..127; the engine forks by the classes the code distinguishes) are fed
 * to the real main() in vi mode, followed by ESC :q! forever; buffers, window sizes and EXINIT option
 * vectors are job variants.  The oracle is the engine itself: every load/store is checked against
 * object bounds and liveness, uninitialised values may not decide branches, addresses or lengths, and
 * a path that exceeds the instruction budget is reported as a hang.  The editor must return from
 * main() (it reached the quit command).
 */
#include "vih.h"
#ifndef NK
#define NK 1
#endif
#ifndef BUF
#define BUF 1
#endif
#ifndef WIN
#define WIN 0
#endif
#ifndef INIT
#define INIT 0
#endif
static const char *bufs_[] = {
	"",
	"ab cd\n",
	"a\xe4\xb8\xad" "b\n\n\t(x) \xd8\xa8\xd8\xa7 e\xcc\x81 \xf4\x8f\xbf\xbd\xf3\xa0\x87\xb0\n",	/* wide, empty line, tab, brackets, RTL, combining, U+10FFFD and U+E01F0 (beyond the last range of the width tables) */
	"one\ntwo\nthree\nfour\nfive\nsix\nseven\neight\n",
};
static const char *wins[][2] = {{"6", "20"}, {"2", "2"}, {"3", "5"}, {"25", "80"}};
static const char *inits[] = {"", "set nohl | set noorder | set noshape", "set td=-2 | set order=2", "set lim=1 | set hll", "set noai | set ic | set hist=2"};
void harness(void)
{
	int i;
	env_mkfile("f", bufs_[BUF], strlen(bufs_[BUF]), 5);
	env_lines = wins[WIN][0];
	env_columns = wins[WIN][1];
	env_exinit = inits[INIT];
#ifdef PREFIX
	vih_str(PREFIX);
#endif
	for (i = 0; i < NK; i++) {
		unsigned char k = symx_u8("key");
		symx_assume(k >= 1 && k < 128);
#ifdef KEYSET
		symx_assume(strchr(KEYSET, k) != NULL);
#endif
		env_in[env_in_len++] = k;
	}
	vih_run_vi("f");
	symx_observe("reads", env_in_reads);
	symx_reach("end");
}
