/*
 * C09-H1b: the push-back queue when input is already waiting on the terminal (a script, a paste).
 * read(0, buf, n) may hand over up to n waiting bytes (env_in_bulk); whatever term_read() asks for,
 * keys pushed by '.' / '@' when no pushed key is pending must all be accepted (they fit the queue),
 * be read before the waiting input, and the waiting input must follow unharmed and in order.
 */
#include <string.h>
#include "vi.h"
#include "symx.h"
#include "env.h"
int xic, xorder, xlim, xtd, xshape;
struct lbuf *ex_lbuf(void) { return NULL; }
void harness(void)
{
	static const int waits[] = {2, 9, 4094, 4095, 4096, 4097, 4200, 6000};
	static const int pushes[] = {1, 2, 3, 40, 600, 1024};
	static char push[1024];
	int w = symx_u8("waiting"), pn = symx_u8("pushlen"), before = symx_u8("read-before"), i, c, ok = 1;
	symx_assume(w < 8 && pn < 6 && before < 3);
	w = waits[symx_conc(w)];
	pn = pushes[symx_conc(pn)];
	before = 1 + symx_conc(before) * 7;	/* keys read before the push: 1, 8, 15 (all < 2 is excluded below) */
	if (before >= w)
		before = 1;
	for (i = 0; i < w; i++)
		env_in[env_in_len++] = 'a' + i % 23;
	env_in_bulk = symx_conc(symx_u8("bulk") & 1);
	for (i = 0; i < before; i++)
		symx_assert(term_read() == 'a' + i % 23, "waiting input is read in order");
	for (i = 0; i < pn; i++)
		push[i] = 'A' + i % 25;
	push[0] = symx_u8("first");
	symx_assume(push[0] > 0);
	term_push(push, pn);
	for (i = 0; i < pn && ok; i++)
		if ((c = term_read()) != (unsigned char) push[i])
			ok = 0;
	symx_observe("accepted", i);
	symx_assert(ok, "keys pushed while nothing pushed is pending are all read back, before the waiting input");
	for (i = before; i < w && ok; i++)
		if ((c = term_read()) != 'a' + i % 23)
			ok = 0;
	symx_assert(ok, "the waiting input follows the pushed keys, complete and in order");
	symx_assert(term_read() == -1, "then the input ends");
	symx_reach("end");
}
