/*
 * C12-H2: the classifier.  Every pattern string of <= PN bytes over literals and every operator
 * character: whenever rstr.c decides to search it literally, the pattern must be of the simple
 * form (no regular-expression operator), and on a symbolic line it must agree with the engine.
 */
#include <string.h>
#include <stdlib.h>
#include "vi.h"
#include "slots.h"
#include "rstr.c"	/* to see which path rstr_make() chose */
#ifndef PN
#define PN 3
#endif
#ifndef LL
#define LL 3
#endif
static const char ALPHA[] = "ab^$\\<>.*+?[]{}()|,1";
static const char OPS[] = "\\.*+?[]{}()|^$";
/* reference: is p of the form ^? (\<)? nonoperators* (\>)? $? */
static int ref_simple(const char *p)
{
	if (*p == '^') p++;
	if (p[0] == '\\' && p[1] == '<') p += 2;
	while (*p && !sl_in(*p, OPS)) p++;
	if (p[0] == '\\' && p[1] == '>') p += 2;
	if (*p == '$') p++;
	return !*p;
}
void harness(void)
{
	char pat[PN + 1], line[LL * 4 + 2];
	char *pp = pat;
	int g1[4], g2[4], i, n, len, r1, r2, flg;
	struct rstr *rs;
	struct rset *set;
	n = symx_u8("n");
	symx_assume(n >= 1 && n <= PN);
	n = symx_conc(n);
	for (i = 0; i < n; i++) {
		pat[i] = symx_u8("p");
		symx_assume(sl_in(pat[i], ALPHA));
	}
	pat[n] = 0;
	rs = rstr_make(pat, 0);
	if (!rs) {
		symx_reach("rejected");
		symx_reach("end");
		return;
	}
	if (!rs->str) {
		symx_reach("general");
		symx_reach("end");
		rstr_free(rs);
		return;
	}
	symx_reach("literal");
	symx_observe_mem("pat", pat, n + 1);
	symx_assert(ref_simple(pat), "a pattern with an operator is never treated as a literal");
	set = rset_make(1, &pp, 0);
	symx_assert(set != 0, "simple pattern compiles in the engine");
	if (!set)
		return;
	len = slots_text(line, "ln", LL, SL_ASCII, "ab^$|,1 ", NULL);
	line[len] = '\n';
	line[len + 1] = 0;
	flg = (symx_u8("notbol") & 1 ? RE_NOTBOL : 0) | (symx_u8("noteol") & 1 ? RE_NOTEOL : 0);
	g1[0] = g1[1] = g1[2] = g1[3] = g2[0] = g2[1] = g2[2] = g2[3] = -7;
	r1 = rstr_find(rs, line, 2, g1, flg);
	r2 = rset_find(set, line, 2, g2, flg);
	symx_observe("r1", r1);
	symx_observe("r2", r2);
	symx_assert((r1 >= 0) == (r2 >= 0), r1 < 0 && r2 >= 0 && g2[0] == len + 1 ?
		"found/not-found agree (engine match begins after the terminating newline)" : "found/not-found agree");
	if (r1 >= 0 && r2 >= 0)
		symx_assert(g1[0] == g2[0] && g1[1] == g2[1], "match offsets agree");
	rstr_free(rs);
	rset_free(set);
	symx_reach("end");
}
