/*
 * C09-H1: the record / push-back mechanism of term.c.
 * (a) the keys read since term_cmd() are exactly what the next term_cmd() returns;
 * (b) after term_push(s, n) the next n reads return s, and they are recorded again;
 * (c) a push made while pushed keys are still pending is read BEFORE them (a '.' or '@' inside a
 *     macro must act where it stands, as when typed);
 * (d) pushes beyond the room of the 4096-byte queue are truncated, never overflow.
 */
#include <string.h>
#include "vi.h"
#include "symx.h"
#include "env.h"
int xic, xorder, xlim, xtd, xshape;
struct lbuf *ex_lbuf(void) { return NULL; }
#ifndef NKEY
#define NKEY 4
#endif
void harness(void)
{
	char typed[NKEY + 1], a[3], b[3], *rec;
	int i, n, k = symx_u8("k");
	symx_assume(k <= NKEY);
	k = symx_conc(k);
	for (i = 0; i < NKEY; i++) {
		typed[i] = symx_u8("key");
		symx_assume(typed[i] != 0 && typed[i] != (char) 0x7a);
		env_in[env_in_len++] = typed[i];
	}
	/* (a) */
	term_cmd(&n);
	for (i = 0; i < k; i++)
		symx_assert(term_read() == (unsigned char) typed[i], "term_read returns the typed keys in order");
	rec = term_cmd(&n);
	symx_assert(n == k && !memcmp(rec, typed, k), "term_cmd returns exactly the keys read since the last term_cmd");
	/* (b) and (c): push A = a0 a1; read a0; push B = b0 b1 (as a nested '.' would); expect b0 b1 a1, then the terminal */
	a[0] = symx_u8("a"); a[1] = symx_u8("a"); b[0] = symx_u8("b"); b[1] = symx_u8("b");
	symx_assume(a[0] && a[1] && b[0] && b[1]);
	term_push(a, 2);
	symx_assert(term_read() == (unsigned char) a[0], "pushed keys are read before the terminal");
	term_push(b, 2);
	{
		int r1 = term_read(), r2 = term_read(), r3 = term_read();
		symx_observe("r1", r1);
		symx_assert(r1 == (unsigned char) b[0] && r2 == (unsigned char) b[1] && r3 == (unsigned char) a[1],
			"keys pushed while others are pending are read before them");
	}
	rec = term_cmd(&n);
	symx_assert(n == 4, "pushed keys are recorded again when they are read");
	if (k < NKEY)
		symx_assert(term_read() == (unsigned char) typed[k], "after the pushed keys the terminal is read again");
	/* (d) */
	{
		static char big[5000];
		memset(big, 'z', sizeof(big));
		term_push(big, sizeof(big));
		term_push(big, sizeof(big));
		for (i = 0; i < 4200; i++)
			if (term_read() != 'z')
				break;
		symx_assert(i <= 4096, "at most the room of the queue is accepted");
		symx_reach("overflow-checked");
	}
	symx_reach("end");
}
