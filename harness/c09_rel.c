/*
 * C09-H2: '.' == retyping the change, 'N.' == retyping it N times, '@r' == typing the register.
 * Two runs of the real main() in vi mode inside one path (symx_isolated): run A uses the repeat
 * command, run B retypes the keys.  Everything else (file, start position, the change command from a
 * menu with symbolic inserted text / count / register prefix) is identical.  Compared: the written
 * file, which includes a marker typed at the final cursor position and a put of the unnamed register.
 */
#include "vih.h"
#include "slots.h"
#ifndef MODE
#define MODE 0		/* 0: '.' and 'N.'; 1: '@a' against typing; 2: '.' after a long insert */
#endif
#ifndef NCNT
#define NCNT 2
#endif
#ifndef TXTN
#define TXTN 1
#endif
#define OUTSZ 2048
struct res { int len; char data[OUTSZ]; };
static char keysA[4096], keysB[4096];
static int nA, nB;
/* regular text: every motion of the menu (with counts up to 3) succeeds from the start position and from the position of the repeat */
static const char *FILE0 = "ab ib ab ib ab ib ab\nab ib ab ib ab ib ab\nab ib ab ib ab iQ ab\nab ib ab ib ab iQ ab\nab ib ab ib ab iQ ab\n";
static void run(void *out, const char *keys, int n)
{
	struct res *r = out;
	env_mkfile("f", FILE0, strlen(FILE0), 5);
	env_lines = "3";
	env_columns = "24";
	env_exinit = "set nohl | set noru | set noorder | set noshape";
	memcpy(env_in, keys, n);
	env_in_len = n;
	vih_run_vi("f");
	r->len = vih_filelen("f");
	if (r->len > OUTSZ)
		r->len = OUTSZ;
	if (r->len > 0)
		memcpy(r->data, vih_file("f"), r->len);
}
static void runA(void *out) { run(out, keysA, nA); }
static void runB(void *out) { run(out, keysB, nB); }
static int add(char *d, int n, const char *s) { int l = strlen(s); memcpy(d + n, s, l); return n + l; }

void harness(void)
{
	static struct res ra, rb;
	char chg[48], txt[12], pre[8], junk[8];
	int c, n = 0, tl, reps, i, pn = 0;
	/* symbolic pieces */
	tl = slots_text(txt, "txt", TXTN, SL_ASCII | SL_2B, MODE == 0 ? "xZ \037" : "xZ ", NULL);	/* \037 stands for the NUL key (^@), see below */
#if MODE == 2
	{
		/* a change of several hundred keystrokes (well inside the 4 KiB record): o<L letters>ESC, then '.' against retyping */
		static const int lens[] = {300, 520, 700};	/* typed as lines of 19 letters and a newline, so that no line gets long */
		int L = lens[symx_conc(symx_u8("len") % 3)], k;
		nA = add(keysA, 0, "1Gyy2Gwo");
		for (k = 0; k < L; k++)
			keysA[nA++] = k % 20 == 19 ? '\n' : 'a' + k % 20;
		keysA[nA++] = '\033';
		memcpy(keysB, keysA, nA);
		nB = nA;
		nA = add(keysA, nA, "j0.");
		nB = add(keysB, nB, "j0o");
		for (k = 0; k < L; k++)
			keysB[nB++] = k % 20 == 19 ? '\n' : 'a' + k % 20;
		keysB[nB++] = '\033';
		(void) c; (void) n; (void) pre; (void) pn; (void) reps; (void) i; (void) junk; (void) chg; (void) tl;
	}
#elif MODE == 0
	{
		static const char *menu[] = {"x", "dw", "dd", "i%s\033", "a%s\033", "o%s\033", "cw%s\033", "rZ", "J", "~", ">>", "s%s\033", "A%s\033", "D",
			"p", "P", "d/ab\n", "cti%s\033", "O%s\033", "X", "C%s\033", "guw", "S%s\033", "I%s\033"};
		int cnt, reg;
		c = symx_u8("cmd");
		symx_assume(c < 24);
		c = symx_conc(c);
		/* optional count and register prefix of the change itself */
		cnt = symx_conc(symx_u8("count") % NCNT);	/* 0: none, 1: "2", 2: "3" */
		reg = symx_conc(symx_u8("reg") & 1);
		if (reg)
			pn = add(pre, pn, "\"a");
		if (cnt)
			pre[pn++] = '1' + cnt;
		pre[pn] = 0;
		snprintf(chg, sizeof(chg), menu[c], txt);
		reps = symx_conc(symx_u8("reps") % NCNT);	/* 0: '.', 1: '2.', 2: '3.' (only after a change without its own count) */
		symx_assume(!cnt || !reps);
		(void) tl;
		/* a motion that fails just before the change (and would succeed where the change is repeated) is not part of it */
		{
			static const char *junks[] = {"", "fQ", "tQ", "'q"};
			int jk = symx_u8("junk") % 4;
#ifndef JUNKALL
			symx_assume(!jk || (!cnt && !reg && !reps));	/* quick tier: only with the plain form of the change */
#endif
			jk = symx_conc(jk);
			strcpy(junk, junks[jk]);
		}
		/* A: start position, change, repeat */
		nA = add(keysA, 0, "1Gyy2Gw");
		nA = add(keysA, nA, junk);
		nA = add(keysA, nA, pre);
		nA = add(keysA, nA, chg);
		nA = add(keysA, nA, "j0");
		if (reps)
			keysA[nA++] = '1' + reps;
		keysA[nA++] = '.';
		/* B: the same, retyped */
		nB = add(keysB, 0, "1Gyy2Gw");
		nB = add(keysB, nB, junk);
		nB = add(keysB, nB, pre);
		nB = add(keysB, nB, chg);
		nB = add(keysB, nB, "j0");
		for (i = 0; i < (reps ? reps + 1 : 1); i++) {
			nB = add(keysB, nB, pre);
			nB = add(keysB, nB, chg);
		}
	}
#else
	{
		/* the register holds a little program (typed into the first line, yanked, the line restored by u) */
		static const char *progs[] = {"x.p", "xjx", "dwP.", "ddp.", "2xw.", "r%sl.", "rZl.", "x@b"};
		char prog[32];
		c = symx_u8("prog");
		symx_assume(c < 8);
		c = symx_conc(c);
		snprintf(prog, sizeof(prog), progs[c], txt);
		/* A: put the program into register a with an ex command, b holds "lx", then execute */
		nA = add(keysA, 0, ":rs b\nlx\n.\n");
		nA = add(keysA, nA, ":rs a\n");
		nA = add(keysA, nA, prog);
		nA = add(keysA, nA, "\n.\n2Gw@a");
		/* B: the same registers, the program typed */
		nB = add(keysB, 0, ":rs b\nlx\n.\n");
		nB = add(keysB, nB, ":rs a\n");
		nB = add(keysB, nB, prog);
		nB = add(keysB, nB, "\n.\n2Gw");
		nB = add(keysB, nB, prog);
		nB = add(keysB, nB, "\n");		/* :rs stores the text with its newline; typed, that is <CR> */
		if (c == 7) {		/* "x@b": the nested register is typed out too (with its newline) */
			nB -= 3;
			nB = add(keysB, nB, "lx\n\n");
		}
		(void) n; (void) pre; (void) pn; (void) reps; (void) i; (void) junk;
	}
#endif
	/* the observation tail: marker at the cursor, unnamed register at the end, write */
	nA = add(keysA, nA, "\033iM\033G$p:w\n:q\n");
	nB = add(keysB, nB, "\033iM\033G$p:w\n:q\n");
	for (i = 0; i < nA; i++)	/* the NUL key */
		if (keysA[i] == '\037')
			keysA[i] = 0;
	for (i = 0; i < nB; i++)
		if (keysB[i] == '\037')
			keysB[i] = 0;
	symx_observe_mem("keysA", keysA, nA);
	symx_isolated(runA, &ra, sizeof(ra));
	symx_isolated(runB, &rb, sizeof(rb));
	symx_observe_mem("fileA", ra.data, ra.len);
	symx_assert(ra.len > 0 && rb.len > 0, "both runs wrote the file");
	symx_assert(ra.len == rb.len && !memcmp(ra.data, rb.data, ra.len),
		MODE ? "@r has the same effect as typing the register's contents" : ". / N. has the same effect as retyping the change");
	symx_reach("end");
}
