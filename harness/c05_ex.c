/*
 * C05-H1/H2: no memory error, crash or hang for any ex command line.
 * MODE 0: one command line of NB free bytes (1..127) on top of a template prefix, then q!.
 * MODE 2: all ordered pairs of 54 command lines (addresses out of range with ';', undo, bare s, &, global, deletes to an empty
 *         buffer, registers, a register rewritten or executed by the command it holds, reading an empty file at address 0, marks, :so/:e with unset alternate file, tags, options), followed by p.
 * MODE 1: the 512-byte limit: command lines of solver-chosen length 505..516 made of a filler of each
 *         kind (addresses, a command name, an argument, a long s pattern, a g command list).
 */
#include "vih.h"
#ifndef NB
#define NB 2
#endif
#ifndef BUF
#define BUF 2
#endif
#ifndef MODE
#define MODE 0
#endif
static const char *bufs_[] = {"", "ab cd\n", "a\xe4\xb8\xad" "b\n\n\t(x) \xd8\xa8\xd8\xa7 e\xcc\x81\n"};
static const char *prefix[] = {"", "1,2", "s/a/", "g/a/", "'a", "/b/", "%s/./", "2", "e ", "w ", "b ", "set ", "rs a\n", "a\n", "1;", "@", "ra ", "k", "pu ", "u|", "1d|u|", "y a|y ", "d a|pu ", "1y|pu|u|", "rs a\nx\n.\nrs "};
#define NPRE (sizeof(prefix) / sizeof(prefix[0]))
void harness(void)
{
	int i;
	env_mkfile("f", bufs_[BUF], strlen(bufs_[BUF]), 5);
#if MODE == 0
	{
		int p = symx_u8("prefix");
		symx_assume(p < (int) NPRE);
		p = symx_conc(p);
		vih_str(prefix[p]);
		for (i = 0; i < NB; i++) {
			unsigned char k = symx_u8("byte");
			symx_assume(k >= 1 && k < 128);
			env_in[env_in_len++] = k;
		}
		vih_str("\n.\n");
	}
#elif MODE == 2
	{
		/* pairs of command lines: the first may leave an odd state (current line outside the buffer, unset
		 * alternate file, empty buffer, registers, marks), the second uses it */
		static const char *cmds[] = {"9;", "0;", "-5;p", "$;+3", "u", "redo", "s/a/b/", "s", "&", "g/a/s//x/", "d", "%d", "1,$d|u", "a\nx\n.", "pu",
			"y", "ka", "'a", "'ad", "so #", "so", "e #", "e", "b 9", "rs a\nq\n.", "@a", "ra a", "=", "p", ".=", "$", "w", "w o", "cm x", "ft", "se td=3",
			"ta x", "po", "tn", "%s/^/\\0\\9/", "g/./d", "v/./p", "1m", "j", "x", "wq!",
			"0r empty", "g/./0r empty", "rs c\n1y c|p|p\n.", "@c", "rs b\n@b\n.", "@b", "0pu", "g/./0pu"};
		int a = symx_u8("first"), b = symx_u8("second");
		env_mkfile("empty", "", 0, 5);
		symx_assume(a < 54 && b < 54);
		a = symx_conc(a);
		b = symx_conc(b);
		vih_str(cmds[a]);
		vih_str("\n");
		vih_str(cmds[b]);
		vih_str("\np\n");
	}
#else
	{
		static const char *kinds[] = {"1", "+", "p", "s/a", "g/a/p|", "e x", "'", ";", "/a/", "\\", "|", "\xd8\xa8", "%", "#"};
		static const char *heads[] = {"make ", "!", "e ", "w ", "r ", "so ", "ta "};
		int k = symx_u8("kind"), len = symx_u8("len"), n = 0, l;
		symx_assume(k < 14 && len <= 11);
		k = symx_conc(k);
		len = 505 + symx_conc(len);
		if (k >= 12) {		/* path expansion: % and # stand for a 40-character file name */
			int h = symx_u8("head");
			symx_assume(h < 7);
			h = symx_conc(h);
			vih_str(heads[h]);
			n = strlen(heads[h]);
			len = symx_conc(symx_u8("npct") % 3) ? 505 + len % 8 : 12 + len;	/* a dozen or several hundred expansions */
		}
		l = strlen(kinds[k]);
		while (n + l <= len) {
			memcpy(env_in + env_in_len, kinds[k], l);
			env_in_len += l;
			n += l;
		}
		vih_str("\n");
	}
#endif
#if MODE == 1
	env_mkfile("a_file_name_of_forty_characters_to_expand", "x\n", 2, 5);
	vih_run_ex("a_file_name_of_forty_characters_to_expand");
#else
	vih_run_ex("f");
#endif
	symx_observe("reads", env_in_reads);
	symx_reach("end");
}
