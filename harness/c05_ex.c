/*
 * C05-H1/H2: no memory error, crash or hang for any ex command line.
 * MODE 0: one command line of NB free bytes (1..127) on top of a template prefix, then q!.
 * MODE 1: the 512-byte limit: command lines of solver-chosen length 505..516 made of a filler of each
 *         kind (addresses, a command name, an argument, a long s pattern, a g command list).
 */
#include "vih.h"
#ifndef NB
#define NB 2
#endif
#ifndef BUF
#define BUF 2
#endif
#ifndef MODE
#define MODE 0
#endif
static const char *bufs_[] = {"", "ab cd\n", "a\xe4\xb8\xad" "b\n\n\t(x) \xd8\xa8\xd8\xa7 e\xcc\x81\n"};
static const char *prefix[] = {"", "1,2", "s/a/", "g/a/", "'a", "/b/", "%s/./", "2", "e ", "w ", "b ", "set ", "rs a\n", "a\n", "1;", "@", "ra ", "k", "pu ", "u|", "1d|u|", "y a|y ", "d a|pu ", "1y|pu|u|", "rs a\nx\n.\nrs "};
#define NPRE (sizeof(prefix) / sizeof(prefix[0]))
void harness(void)
{
	int i;
	env_mkfile("f", bufs_[BUF], strlen(bufs_[BUF]), 5);
#if MODE == 0
	{
		int p = symx_u8("prefix");
		symx_assume(p < (int) NPRE);
		p = symx_conc(p);
		vih_str(prefix[p]);
		for (i = 0; i < NB; i++) {
			unsigned char k = symx_u8("byte");
			symx_assume(k >= 1 && k < 128);
			env_in[env_in_len++] = k;
		}
		vih_str("\n.\n");
	}
#else
	{
		static const char *kinds[] = {"1", "+", "p", "s/a", "g/a/p|", "e x", "'", ";", "/a/", "\\", "|", "\xd8\xa8"};
		int k = symx_u8("kind"), len = symx_u8("len"), n = 0, l;
		symx_assume(k < 12 && len <= 11);
		k = symx_conc(k);
		len = 505 + symx_conc(len);
		l = strlen(kinds[k]);
		while (n + l <= len) {
			memcpy(env_in + env_in_len, kinds[k], l);
			env_in_len += l;
			n += l;
		}
		vih_str("\n");
	}
#endif
	vih_run_ex("f");
	symx_observe("reads", env_in_reads);
	symx_reach("end");
}
