/*
 * C03: writes never clobber foreign or newer files; failures surface and stay dirty.
 * ex level (ec_write / ec_quit / lbuf_save / lbuf_wr / write_fully) over the fault-injecting
 * environment.  Symbolic: the command (w, w!, w o, w! o, wq, x, 1,2w o), whether the other file
 * exists, whether the edited file became newer on disk, the buffer shape (zero, one, several
 * write batches, direct writes of long lines), and a fault schedule: NF faults, each at a
 * solver-chosen position of the open/write/close sequence, each an error return or a short count
 * (1 byte, half, all but one byte).
 */
#include "exh.h"
static int sl_copy_(char *d, const char *s) { int n = 0; while (s[n]) { d[n] = s[n]; n++; } return n; }
#ifndef NF
#define NF 1
#endif
#ifndef KINDS
#define KINDS 6	/* 5: without the EINTR variant of an error return */
#endif
static char *cmds[] = {"w", "w!", "w o", "w! o", "wq", "x", "1,2w! o", "w p"};
#define NCMDS 8
static char big[3][5002];
static char filebuf[16000], expect[16000];
static int mkshape(int shape)
{
	int i, n = 0;
	if (shape == 1)
		n = sl_copy_(filebuf, "one\n");
	if (shape == 2)
		n = sl_copy_(filebuf, "l1\nl2\nl3\n");
	if (shape == 3 || shape == 4) {		/* 3: three 3000-byte lines (batches); 4: two 5000-byte lines (direct) */
		int len = shape == 3 ? 3000 : 5000, cnt = shape == 3 ? 3 : 2;
		for (i = 0; i < cnt; i++) {
			memset(filebuf + n, 'a' + i, len);
			n += len;
			filebuf[n++] = '\n';
		}
	}
	return n;
}
void harness(void)
{
	char *files[] = {"f", NULL};
	int shape, c, oexists, newer, i, n, st, fo, ff, elen, own, force, partial;
	char *text;
	long omtime = 0;
	env_mkfile("f", "x\n", 2, 5);
	exh_start(files);		/* shared by all paths */
	shape = symx_u8("shape");
	symx_assume(shape < NSHAPES);
	shape = symx_conc(shape);
	n = mkshape(shape);
	filebuf[n] = 0;
	env_mkfile("f", filebuf, n, 5);
	lbuf_edit(xb, filebuf, 0, lbuf_len(xb));	/* as if this content had been loaded */
	lbuf_saved(xb, 1);
	/* make the buffer differ from the file: one line more, or (the file is then longer than what is written) one line less */
	if (symx_conc(symx_u8("shrink") & 1) && lbuf_len(xb) >= 2) {
		exh_cmd("1d");
	} else {
		exh_input("new\n.\n");
		exh_cmd("$a");
	}
	text = exh_text();
	c = symx_u8("cmd");
	symx_assume(c < NCMDS);
#ifdef CMDMASK
	symx_assume((CMDMASK >> c) & 1);
#endif
#ifdef SHAPEMASK
	symx_assume((SHAPEMASK >> shape) & 1);
#endif
	c = symx_conc(c);
	own = c <= 1 || c == 4 || c == 5;
	force = c == 1 || c == 3 || c == 6;
	partial = c == 6;
	symx_assume(!partial || lbuf_len(xb) >= 2);
	oexists = symx_conc(symx_u8("oexists") & 1);
	newer = symx_conc(symx_u8("newer") & 1);
	if (oexists) {
		env_mkfile("o", "other file\ncontent\n", 19, 6);
		env_mkfile("p", "other file\ncontent\n", 19, 6);
	}
	if (newer) {	/* someone else rewrote the edited file after we read it */
		ff = env_find("f");
		env_fs[ff].mtime = ++env_clock + 100;
		memcpy(env_fs[ff].data, "XX", n >= 2 ? 2 : 0);
	}
	/* an earlier successful write to some other path must not disarm the guards */
	{
		int pre = symx_u8("pre");
		symx_assume(pre < 3);
		pre = symx_conc(pre);
		if (pre == 1)
			symx_assert(exh_cmd("w! q") == 0, "write to another path succeeds");
		if (pre == 2 && lbuf_len(xb) >= 2)
			symx_assert(exh_cmd("1,2w! q") == 0, "partial write to another path succeeds");
	}
	ff = env_find("f");
	memcpy(filebuf, env_fs[ff].data, env_fs[ff].len);	/* disk image before the command */
	n = env_fs[ff].len;
	/* fault schedule */
	env_calls = 0;
	env_fault_n = ENV_NFAULT;
	for (i = 0; i < NF; i++) {
		int pos = symx_u8("fpos"), kind = symx_u8("fkind");
		symx_assume(pos < 8 && kind < KINDS);	/* kind 0: no fault; 1: error return (EIO); 5: error return (EINTR) */
		pos = symx_conc(pos);
		kind = symx_conc(kind);
		if (kind == 1 || kind == 5) {
			env_fault_kind[pos] = ENV_FAIL;
			env_fault_arg[pos] = kind == 5 ? 4 : 0;	/* EINTR */
		}
		if (kind >= 2 && kind <= 4) {
			env_fault_kind[pos] = ENV_SHORT;
			env_fault_arg[pos] = kind == 2 ? 1 : kind == 3 ? -1 : -2;
		}
	}
	exh_out_reset();
	st = exh_cmd(cmds[c]);
	symx_observe("status", st);
	symx_observe("faults", env_faults_hit);
	symx_observe("xquit", xquit);
	ff = env_find("f");
	fo = env_find(c == 7 ? "p" : "o");
	/* expected bytes of a successful write */
	if (partial) {
		char *p = lbuf_cp(xb, 0, 2);
		elen = strlen(p);
		memcpy(expect, p, elen);
		free(p);
	} else {
		elen = strlen(text);
		memcpy(expect, text, elen);
	}
	if (!own && !force && oexists) {
		/* (a) a foreign existing file is never replaced without '!' */
		symx_reach("foreign-guard");
		symx_assert(st != 0, "writing over a foreign existing file without ! is refused");
		symx_assert(env_fs[fo].len == 19 && !memcmp(env_fs[fo].data, "other file\ncontent\n", 19), "the foreign file is untouched");
		symx_assert(env_calls == 0, "the foreign file is not even opened");
	} else if (own && !force && newer) {
		/* (b) a file that became newer on disk is never replaced without '!' */
		symx_reach("newer-guard");
		symx_assert(st != 0, "writing over a file changed on disk without ! is refused");
		symx_assert(env_fs[ff].len == n && !memcmp(env_fs[ff].data, filebuf, n), "the newer file is untouched");
		symx_assert(xquit == 0, "no exit after a refused write");
	} else if (env_faults_hit > 0) {
		/* (c) open/write/close failed somewhere */
		symx_reach("fault");
		symx_assert(st != 0, "a failed open/write/close makes the command report failure");
		symx_assert(xquit == 0, "no exit after a failed write");
		if (own) {
			exh_cmd("q");
			symx_assert(xquit == 0, "after a failed write the buffer is still dirty: q is refused");
			env_fault_n = 0;
			symx_assert(exh_cmd("w!") == 0, "a retry without faults succeeds");
			symx_assert(env_fs[ff].len == (long) strlen(text) && !memcmp(env_fs[ff].data, text, strlen(text)), "after the retry the file holds the buffer");
			exh_cmd("q");
			symx_assert(xquit == 1, "after the successful retry q exits");
		}
	} else {
		/* (d)/(e) no error return was consumed (short counts only, or none): must succeed */
		int t = own ? ff : fo;
		symx_reach(env_shorts_hit ? "shorts-only" : "clean");
		symx_assert(st == 0, "without an error return the write succeeds (short counts are retried)");
		symx_assert(t >= 0 && env_fs[t].len == elen && !memcmp(env_fs[t].data, expect, elen), "on success the file holds exactly the written lines");
		if (c == 4 || c == 5)
			symx_assert(xquit == 1, "wq / x exit after a successful write");
		if (own && c <= 1) {
			exh_cmd("q");
			symx_assert(xquit == 1, "after a successful whole write q exits");
		}
		if (!own) {
			exh_cmd("q");
			symx_assert(xquit == 0, "a write to another path does not make the buffer clean");
		}
	}
	if (st == 0 && !(own && !force && newer)) {
		int t = own ? ff : fo;
		symx_assert(t >= 0 && env_fs[t].len == elen && !memcmp(env_fs[t].data, expect, elen), "whenever the command reports success the file holds exactly the written lines");
	}
	free(text);
	symx_reach("end");
}
