/*
 * C18-H2: letter shaping.  The current character is symbolic over the whole table of joining letters (by
 * index) or a non-letter; the previous and next characters are one representative of every joining
 * behaviour (dual-joining, right-joining, tatweel, ZWJ, non-joining letter, Latin, blank, nothing), with
 * 0..2 diacritics between them.  The result is a
 * presentation form of the SAME letter (isolated/initial/medial/final according to whether the
 * neighbours join), never another letter; other characters are left alone.
 */
#include "uc.c"
#include "symx.h"
struct lbuf *ex_lbuf(void) { return NULL; }
static int put(char *d, int cp)
{
	if (cp < 0x80) { d[0] = cp; return 1; }
	if (cp < 0x800) { d[0] = 0xc0 | (cp >> 6); d[1] = 0x80 | (cp & 0x3f); return 2; }
	d[0] = 0xe0 | (cp >> 12); d[1] = 0x80 | ((cp >> 6) & 0x3f); d[2] = 0x80 | (cp & 0x3f);
	return 3;
}
/* the current character: any entry of the joining-letter table, or a non-letter */
static int pick(const char *name, int *isletter)
{
	int k = symx_i32(name);
	symx_assume(k >= -2 && k < (int) LEN(achars));
	*isletter = k >= 0;
	if (k == -1) return 'x';
	if (k == -2) return ' ';
	return achars[k].c;
}
/* a neighbour: one representative of every joining behaviour */
static int neighbour(const char *name, int *isletter)
{
	static const int opt[] = {0x0628 /* beh: joins both ways */, 0x0627 /* alef: joins only to the previous letter */,
		0x0640 /* tatweel */, 0x200d /* zero width joiner */, 0x0621 /* hamza: joins nothing */, 'x', ' ', 0 /* nothing */};
	int k = symx_u8(name);
	symx_assume(k < 8);
	k = symx_conc(k);
	*isletter = k < 5;
	return opt[k];
}
void harness(void)
{
	char s[40], *cur, *o;
	int n = 0, lp, lc, ln, prev, c, next, d1, d2, i, got, jp, jn, want;
	struct achar *ap = NULL, *ac = NULL, *an = NULL;
	prev = neighbour("prev", &lp);
	c = pick("cur", &lc);
	next = neighbour("next", &ln);
	symx_assume(c != 0);
	d1 = symx_conc(symx_u8("d1") % 3);
	d2 = symx_conc(symx_u8("d2") % 3);
	if (prev)
		n += put(s + n, prev);
	for (i = 0; i < d1 && prev; i++)
		n += put(s + n, 0x064e);	/* fatha */
	cur = s + n;
	n += put(s + n, c);
	for (i = 0; i < d2; i++)
		n += put(s + n, 0x0651);	/* shadda */
	if (next)
		n += put(s + n, next);
	s[n] = 0;
	o = uc_shape(s, cur);
	for (i = 0; i < (int) LEN(achars); i++) {
		if (achars[i].c == (unsigned) prev && lp) ap = &achars[i];
		if (achars[i].c == (unsigned) c && lc) ac = &achars[i];
		if (achars[i].c == (unsigned) next && ln) an = &achars[i];
	}
	if (!lc) {
		symx_reach("nonletter");
		symx_assert(o == NULL || uc_code(o) == c, "a character that is not a joining letter is not altered");
		symx_reach("end");
		return;
	}
	symx_assert(o != NULL, "a joining letter is shaped");
	got = uc_code(o);
	jp = ap && (ap->i || ap->m) && (ac->f || ac->m);
	jn = an && (ac->i || ac->m) && (an->f || an->m);
	want = jp && jn ? ac->m : jp ? ac->f : jn ? ac->i : ac->c;
	if (!want)
		want = c;
	symx_observe("got", got);
	symx_assert(got == (int) ac->c || got == (int) ac->s || got == (int) ac->i || got == (int) ac->m || got == (int) ac->f,
		"the result is a form of the same letter");
	symx_assert(got == want, "the form is the one the joining neighbours call for");
	symx_reach(jp && jn ? "medial" : jp ? "final" : jn ? "initial" : "isolated");
	symx_reach("end");
}
