/* helpers for harnesses that drive the editor through ex_init()/ex_command() (ex mode, as vi -s -e) */
#ifndef EXH_H
#define EXH_H
#include <stdlib.h>
#include <string.h>
#include "vi.h"
#include "symx.h"
#include "env.h"
void dir_init(void);
void syn_init(void);
int tag_init(void);

static char *exh_files[20];
/* start the editor on the given files (already present in the environment's file system or not) */
static void exh_start(char **files)
{
	int i;
	for (i = 0; files[i] && i < 19; i++)
		exh_files[i] = files[i];
	exh_files[i] = NULL;
	xvis = 0;
	xled = 0;		/* -s: messages through printf, input through getchar */
	dir_init();
	syn_init();
	tag_init();
	symx_assert(ex_init(exh_files) == 0, "ex_init succeeds");
	symx_stdout_len = 0;
}
/* queue lines for the a/i/c text block reader (stdin) */
static void exh_input(const char *s)
{
	int n = strlen(s);
	memcpy(env_in + env_in_len, s, n);
	env_in_len += n;
}
static char *exh_text(void)
{
	return lbuf_cp(xb, 0, lbuf_len(xb));
}
static int exh_text_is(const char *want)
{
	char *s = exh_text();
	int r = !strcmp(s, want);
	free(s);
	return r;
}
/* run one command line as ex() would (without the ':' register) */
static int exh_cmd(char *ln)
{
	return ex_command(ln);
}
static void exh_out_reset(void) { symx_stdout_len = 0; symx_stdout[0] = 0; }
static char *exh_out(void) { symx_stdout[symx_stdout_len < ENV_OUTSZ ? symx_stdout_len : ENV_OUTSZ - 1] = 0; return symx_stdout; }
#endif
