/* a small terminal emulator for the subset of sequences term.c emits: CUP, CUF/CUB, EL, IL, DL, DECSTBM,
 * SGR (ignored), CR, LF, single-width characters (one cell per character start; a multi-byte character is
 * stored as 0x80 | low bit of its lead byte << 6 | low six bits of its continuation bytes xor-ed) */
#ifndef VT_H
#define VT_H
#include <string.h>
#define VT_ROWS 26
#define VT_COLS 82
struct vt {
	int rows, cols, r, c, top, bot;	/* size, cursor, scroll region (inclusive) */
	char cell[VT_ROWS][VT_COLS];
	int bad;			/* sequences outside the subset */
	int lr, lc, lk;			/* cell of the multi-byte character being received, bytes seen */
};
static void vt_init(struct vt *t, int rows, int cols)
{
	memset(t, 0, sizeof(*t));
	t->rows = rows;
	t->cols = cols;
	t->top = 0;
	t->bot = rows - 1;
	memset(t->cell, ' ', sizeof(t->cell));
}
static void vt_scroll(struct vt *t, int from, int n)	/* delete n lines at row from inside the region (n<0: insert) */
{
	int i;
	if (from < t->top || from > t->bot)
		return;
	if (n > 0) {
		for (i = from; i <= t->bot; i++) {
			if (i + n <= t->bot)
				memcpy(t->cell[i], t->cell[i + n], VT_COLS);
			else
				memset(t->cell[i], ' ', VT_COLS);
		}
	} else {
		n = -n;
		for (i = t->bot; i >= from; i--) {
			if (i - n >= from)
				memcpy(t->cell[i], t->cell[i - n], VT_COLS);
			else
				memset(t->cell[i], ' ', VT_COLS);
		}
	}
}
static void vt_feed(struct vt *t, const char *s, long n)
{
	long i = 0;
	while (i < n) {
		unsigned char ch = s[i++];
		if (ch == 033 && i < n && s[i] == '[') {
			int p[4] = {0, 0, 0, 0}, np = 0, any = 0;
			i++;
			while (i < n && ((s[i] >= '0' && s[i] <= '9') || s[i] == ';')) {
				if (s[i] == ';') {
					if (np < 3)
						np++;
				} else {
					p[np] = p[np] * 10 + s[i] - '0';
					any = 1;
				}
				i++;
			}
			if (i >= n)
				break;
			ch = s[i++];
			if (ch == 'm') {
				;
			} else if (ch == 'H') {
				t->r = (p[0] ? p[0] : 1) - 1;
				t->c = (p[1] ? p[1] : 1) - 1;
			} else if (ch == 'K') {
				if (t->r < VT_ROWS && t->c < VT_COLS)
					memset(t->cell[t->r] + t->c, ' ', VT_COLS - t->c);
			} else if (ch == 'C') {
				t->c += any ? p[0] : 1;
			} else if (ch == 'D') {
				t->c -= any ? p[0] : 1;
				if (t->c < 0)
					t->c = 0;
			} else if (ch == 'r') {
				int top = any ? p[0] - 1 : 0, bot = any && np ? p[1] - 1 : t->rows - 1;
				if (top < bot && bot < t->rows) {	/* (a region that is not at least two rows is ignored, as terminals do) */
					t->top = top;
					t->bot = bot;
					t->r = t->c = 0;
				}
			} else if (ch == 'M') {
				vt_scroll(t, t->r, any ? p[0] : 1);
			} else if (ch == 'L') {
				vt_scroll(t, t->r, -(any ? p[0] : 1));
			} else {
				t->bad++;
			}
			if (t->c >= t->cols)
				t->c = t->cols - 1;
			if (t->r >= t->rows)
				t->r = t->rows - 1;
			continue;
		}
		if (ch == '\r') {
			t->c = 0;
		} else if (ch == '\n') {
			if (t->r == t->bot)
				vt_scroll(t, t->top, 1);
			else if (t->r < t->rows - 1)
				t->r++;
		} else if (ch >= 0x20 && ch != 0x7f) {
			if ((ch & 0xc0) == 0x80) {	/* continuation byte of a character already placed */
				if (t->lk > 0 && t->lr < VT_ROWS && t->lc < VT_COLS)
					t->cell[t->lr][t->lc] ^= ch & 0x3f;
				continue;
			}
			t->lk = 0;
			if (t->r < VT_ROWS && t->c < VT_COLS) {
				t->cell[t->r][t->c] = ch < 0x80 ? ch : (0x80 | ((ch & 1) << 6));
				if (ch >= 0x80) {
					t->lr = t->r;
					t->lc = t->c;
					t->lk = 1;
				}
			}
			if (t->c < t->cols - 1)
				t->c++;
		} else {
			t->bad++;
		}
	}
}
#endif
