/* engine validation: one of the repository's own test scripts, run concretely through the
 * real main() under the environment model; the file written must equal the expected one */
#include <string.h>
#include "symx.h"
#include "env.h"
#include "testdata.h"	/* generated: T_STDIN, T_EXPECT, T_EX */
void harness(void)
{
	char *argv_ex[] = {"vi", "-s", "-e", 0};
	char *argv_vi[] = {"vi", "-v", 0};
	int f;
	memcpy(env_in, T_STDIN, T_STDIN_LEN);
	env_in_len = T_STDIN_LEN;
	if (T_EX)
		vi_main(3, argv_ex);
	else
		vi_main(2, argv_vi);
	symx_reach("end");
	f = env_find("/tmp/.neatvi2");
	if (T_EXPECT_LEN == 0 && f < 0)
		return;
	symx_assert(f >= 0, "file written");
	if (f < 0)
		return;
	symx_observe_mem("file", env_fs[f].data, env_fs[f].len);
	symx_assert(env_fs[f].len == T_EXPECT_LEN, "length equals expected");
	symx_assert(!memcmp(env_fs[f].data, T_EXPECT, T_EXPECT_LEN), "content equals expected");
}
