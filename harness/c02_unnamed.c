/*
 * C02 (unnamed buffer): the first write gives the buffer its name; it counts as saved only if the whole
 * buffer was written.  Symbolic range of the write; then the listing, :e other and :q are observed.
 */
#include "exh.h"
void harness(void)
{
	char *files[] = {NULL};
	char cmd[32];
	int beg, end, whole, st;
	exh_start(files);
	exh_input("l1\nl2\nl3\n.\n");
	exh_cmd("a");
	symx_assert(lbuf_len(xb) == 3, "three lines appended");
	beg = symx_u8("beg");
	end = symx_u8("end");
	symx_assume(beg >= 1 && beg <= end && end <= 3);
	beg = symx_conc(beg);
	end = symx_conc(end);
	whole = beg == 1 && end == 3;
	if (symx_conc(symx_u8("form") & 1) && whole)
		strcpy(cmd, "w part");
	else
		snprintf(cmd, sizeof(cmd), "%d,%dw part", beg, end);
	symx_observe_mem("cmd", cmd, strlen(cmd) + 1);
	st = exh_cmd(cmd);
	symx_assert(st == 0, "the write succeeds");
	symx_assert(ex_path() && !strcmp(ex_path(), "part"), "the unnamed buffer takes the name of its first write");
	exh_out_reset();
	exh_cmd("b");
	if (!whole)
		symx_assert(strstr(exh_out(), "part *") != NULL, "the listing flags the buffer: its file holds only part of it");
	st = exh_cmd("e other");
	if (!whole) {
		symx_reach("partial");
		symx_assert(st != 0 && !strcmp(ex_path(), "part"), "e is refused after a partial first write");
		exh_cmd("q");
		symx_assert(xquit == 0, "q is refused after a partial first write");
	} else {
		symx_reach("whole");
		symx_assert(st == 0, "e is allowed after the whole buffer was written");
	}
	symx_observe("xquit", xquit);
	symx_reach("end");
}
