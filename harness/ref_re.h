/*
 * Reference matcher for the ERE dialect neatvi accepts, written from the POSIX description and the
 * property text (leftmost start; greedy quantifiers; left-biased alternation; last-iteration
 * captures); it shares no code with regex.c: a template parser producing a tree, and a
 * backtracking tree walker with explicit continuations (no compiled program, no depth limit).
 *
 * Templates are pattern strings in which the letters x y z w stand for placeholder characters
 * (code points chosen by the solver); the string handed to the editor is the template with the
 * placeholders substituted by their UTF-8 encodings.
 */
#ifndef REF_RE_H
#define REF_RE_H
#include <string.h>

enum { R_LIT, R_ANY, R_SET, R_BOL, R_EOL, R_WBEG, R_WEND, R_GRP, R_CAT, R_ALT, R_REP, R_EMPTY };
#define R_MAXN 48
#define R_MAXG 6
#define R_MAXSET 8
struct rnd {
	int t;
	int a, b;		/* children (R_CAT, R_ALT: a b; R_GRP, R_REP: a) */
	int min, max;		/* R_REP; max < 0: unbounded */
	int grp;		/* R_GRP: group number (1..) */
	int cp;			/* R_LIT: code point */
	int neg, nset;		/* R_SET */
	int lo[R_MAXSET], hi[R_MAXSET];	/* R_SET: ranges; class items are expanded to ranges */
};
static struct rnd R_n[R_MAXN];
static int R_nn, R_ngrp, R_root, R_err;
static int R_ph[4];		/* code points of placeholders x y z w */
static int R_nullable_loop;	/* some repetition body can match the empty string */

static int r_new(int t, int a, int b)
{
	if (R_nn >= R_MAXN) {
		R_err = 1;
		return 0;
	}
	memset(&R_n[R_nn], 0, sizeof(R_n[0]));
	R_n[R_nn].t = t;
	R_n[R_nn].a = a;
	R_n[R_nn].b = b;
	return R_nn++;
}

static int r_alt(const char **s);
static int r_phcp(int c)
{
	return c == 'x' ? R_ph[0] : c == 'y' ? R_ph[1] : c == 'z' ? R_ph[2] : c == 'w' ? R_ph[3] : c;
}
static void r_setadd(struct rnd *n, int lo, int hi)
{
	if (n->nset < R_MAXSET) {
		n->lo[n->nset] = lo;
		n->hi[n->nset] = hi;
		n->nset++;
	} else {
		R_err = 1;
	}
}
static int r_atom(const char **s)
{
	int c = (unsigned char) **s, n;
	if (c == '(') {
		int g = ++R_ngrp, a;
		++*s;
		a = **s == ')' ? r_new(R_EMPTY, 0, 0) : r_alt(s);
		if (**s != ')')
			R_err = 1;
		else
			++*s;
		n = r_new(R_GRP, a, 0);
		R_n[n].grp = g;
		return n;
	}
	if (c == '.') { ++*s; return r_new(R_ANY, 0, 0); }
	if (c == '^') { ++*s; return r_new(R_BOL, 0, 0); }
	if (c == '$') { ++*s; return r_new(R_EOL, 0, 0); }
	if (c == '\\' && (*s)[1] == '<') { *s += 2; return r_new(R_WBEG, 0, 0); }
	if (c == '\\' && (*s)[1] == '>') { *s += 2; return r_new(R_WEND, 0, 0); }
	if (c == '\\') {
		++*s;
		n = r_new(R_LIT, 0, 0);
		R_n[n].cp = (unsigned char) *(*s)++;
		return n;
	}
	if (c == '[') {
		n = r_new(R_SET, 0, 0);
		++*s;
		if (**s == '^') {
			R_n[n].neg = 1;
			++*s;
		}
		if (**s == ']') {	/* a leading ] is a member */
			r_setadd(&R_n[n], ']', ']');
			++*s;
		}
		while (**s && **s != ']') {
			if ((*s)[0] == '[' && (*s)[1] == ':') {
				if (!strncmp(*s, "[:digit:]", 9)) r_setadd(&R_n[n], '0', '9');
				else if (!strncmp(*s, "[:alpha:]", 9)) { r_setadd(&R_n[n], 'a', 'z'); r_setadd(&R_n[n], 'A', 'Z'); }
				else if (!strncmp(*s, "[:upper:]", 9)) r_setadd(&R_n[n], 'A', 'Z');
				else if (!strncmp(*s, "[:lower:]", 9)) r_setadd(&R_n[n], 'a', 'z');
				else if (!strncmp(*s, "[:space:]", 9)) { r_setadd(&R_n[n], ' ', ' '); r_setadd(&R_n[n], '\t', '\r'); }
				else R_err = 1;
				*s += 9;
				continue;
			}
			{
				int lo = r_phcp((unsigned char) *(*s)++), hi = lo;
				if ((*s)[0] == '-' && (*s)[1] && (*s)[1] != ']') {
					++*s;
					hi = r_phcp((unsigned char) *(*s)++);
				}
				r_setadd(&R_n[n], lo, hi);
			}
		}
		if (**s == ']')
			++*s;
		else
			R_err = 1;
		return n;
	}
	++*s;
	n = r_new(R_LIT, 0, 0);
	R_n[n].cp = r_phcp(c);
	return n;
}
static int r_num(const char **s)
{
	int v = 0;
	while (**s >= '0' && **s <= '9')
		v = v * 10 + *(*s)++ - '0';
	return v;
}
static int r_nullable(int n);
static int r_piece(const char **s)
{
	int a = r_atom(s), n, c = **s;
	if (c == '*' || c == '+' || c == '?') {
		++*s;
		n = r_new(R_REP, a, 0);
		R_n[n].min = c == '+';
		R_n[n].max = c == '?' ? 1 : -1;
		return n;
	}
	if (c == '{') {
		++*s;
		n = r_new(R_REP, a, 0);
		R_n[n].min = r_num(s);
		R_n[n].max = R_n[n].min;
		if (**s == ',') {
			++*s;
			R_n[n].max = **s == '}' ? -1 : r_num(s);
		}
		if (**s == '}')
			++*s;
		else
			R_err = 1;
		return n;
	}
	return a;
}
static int r_cat(const char **s)
{
	int a;
	if (!**s || **s == '|' || **s == ')')
		return r_new(R_EMPTY, 0, 0);
	a = r_piece(s);
	while (**s && **s != '|' && **s != ')')
		a = r_new(R_CAT, a, r_piece(s));
	return a;
}
static int r_alt(const char **s)
{
	int a = r_cat(s);
	if (**s == '|') {
		++*s;
		a = r_new(R_ALT, a, r_alt(s));
	}
	return a;
}
static int r_nullable(int n)
{
	struct rnd *p = &R_n[n];
	switch (p->t) {
	case R_LIT: case R_ANY: case R_SET: return 0;
	case R_GRP: return r_nullable(p->a);
	case R_CAT: return r_nullable(p->a) && r_nullable(p->b);
	case R_ALT: return r_nullable(p->a) || r_nullable(p->b);
	case R_REP: return p->min == 0 || r_nullable(p->a);
	default: return 1;
	}
}
/* parse a template; returns 0 on success */
static int ref_parse(const char *tmpl)
{
	const char *s = tmpl;
	int i;
	R_nn = R_ngrp = R_err = R_nullable_loop = 0;
	R_root = r_alt(&s);
	if (*s)
		R_err = 1;
	for (i = 0; i < R_nn; i++)
		if (R_n[i].t == R_REP && R_n[i].max != 1 && !(R_n[i].min == R_n[i].max && R_n[i].max == 1) && r_nullable(R_n[i].a))
			R_nullable_loop = 1;
	return R_err;
}
/* the pattern string for the editor: placeholders replaced by their UTF-8 encodings */
static int ref_putcp(char *d, int cp)
{
	if (cp < 0x80) { d[0] = cp; return 1; }
	if (cp < 0x800) { d[0] = 0xc0 | (cp >> 6); d[1] = 0x80 | (cp & 0x3f); return 2; }
	if (cp < 0x10000) { d[0] = 0xe0 | (cp >> 12); d[1] = 0x80 | ((cp >> 6) & 0x3f); d[2] = 0x80 | (cp & 0x3f); return 3; }
	d[0] = 0xf0 | (cp >> 18); d[1] = 0x80 | ((cp >> 12) & 0x3f); d[2] = 0x80 | ((cp >> 6) & 0x3f); d[3] = 0x80 | (cp & 0x3f);
	return 4;
}
static void ref_pattern(const char *tmpl, char *out)
{
	int n = 0, inbrk = 0;
	for (; *tmpl; tmpl++) {
		int c = (unsigned char) *tmpl;
		if (c == '\\' && tmpl[1]) {
			out[n++] = *tmpl++;
			out[n++] = *tmpl;
			continue;
		}
		if (c == '[' && !inbrk && tmpl[1] != ':')
			inbrk = 1;
		else if (c == ']' && inbrk && tmpl[-1] != ':')
			inbrk = 0;
		if (inbrk && c == '[' && tmpl[1] == ':') {	/* copy a class name verbatim */
			while (*tmpl && !(tmpl[0] == ':' && tmpl[1] == ']'))
				out[n++] = *tmpl++;
			out[n++] = *tmpl++;
			out[n++] = *tmpl;
			continue;
		}
		if (c == 'x' || c == 'y' || c == 'z' || c == 'w')
			n += ref_putcp(out + n, r_phcp(c));
		else
			out[n++] = c;
	}
	out[n] = 0;
}

/* ---------------------------------------------------------------- matching */
static const unsigned char *M_s;	/* the line */
static int M_len;
static int M_icase, M_notbol, M_noteol;
static int M_cap[R_MAXG][2];
static int M_mode;			/* 0: accept the first parse; 1: accept only the parse with M_want* */
static int M_wantend, M_wantcap[R_MAXG][2], M_ncheck;
static int M_end;
static long M_fuel;			/* guards the walker itself against runaway templates */

struct rcont {
	int kind;	/* 0 node, 1 group end, 2 repetition */
	int node, cnt, start;
	struct rcont *next;
};
static int m_clen(int pos)
{
	int c = M_s[pos];
	if (c < 0x80) return c > 0;
	if (c < 0xe0) return 2;
	if (c < 0xf0) return 3;
	return 4;
}
static int m_cp(int pos)
{
	int c = M_s[pos], l = m_clen(pos);
	if (l <= 1) return c;
	if (l == 2) return ((c & 0x1f) << 6) | (M_s[pos + 1] & 0x3f);
	if (l == 3) return ((c & 0x0f) << 12) | ((M_s[pos + 1] & 0x3f) << 6) | (M_s[pos + 2] & 0x3f);
	return ((c & 0x07) << 18) | ((M_s[pos + 1] & 0x3f) << 12) | ((M_s[pos + 2] & 0x3f) << 6) | (M_s[pos + 3] & 0x3f);
}
static int m_fold(int c)
{
	return M_icase && c >= 'A' && c <= 'Z' ? c + 32 : c;
}
static int m_wordat(int pos)	/* is the character starting at pos a word character */
{
	int c = M_s[pos];
	return (c >= '0' && c <= '9') || (c >= 'a' && c <= 'z') || (c >= 'A' && c <= 'Z') || c == '_' || c > 127;
}
static int m_wordbefore(int pos)
{
	int p = pos - 1;
	if (pos <= 0)
		return 0;
	while (p > 0 && (M_s[p] & 0xc0) == 0x80)
		p--;
	return m_wordat(p);
}
static int m_run(int n, int pos, struct rcont *k);
static int m_cont(struct rcont *k, int pos)
{
	if (--M_fuel < 0)
		return 0;
	if (!k) {
		int g;
		M_end = pos;
		if (M_mode == 0)
			return 1;
		if (pos != M_wantend)
			return 0;
		for (g = 1; g <= M_ncheck; g++)
			if (M_cap[g][0] != M_wantcap[g][0] || M_cap[g][1] != M_wantcap[g][1])
				return 0;
		return 1;
	}
	if (k->kind == 0)
		return m_run(k->node, pos, k->next);
	if (k->kind == 1) {
		int g = R_n[k->node].grp, o0 = M_cap[g][0], o1 = M_cap[g][1];
		if (g < R_MAXG) {
			M_cap[g][0] = k->start;
			M_cap[g][1] = pos;
		}
		if (m_cont(k->next, pos))
			return 1;
		if (g < R_MAXG) {
			M_cap[g][0] = o0;
			M_cap[g][1] = o1;
		}
		return 0;
	}
	/* one more iteration of a repetition finished at pos */
	{
		struct rnd *p = &R_n[k->node];
		struct rcont again;
		int empty = pos == k->start;
		if (empty && k->cnt > p->min && M_mode == 0)
			return 0;			/* priority order: an empty iteration beyond the minimum is never chosen */
		/* (when only asking whether a parse exists, one empty iteration is a parse, but it is never followed by another) */
		if (!empty && (p->max < 0 || k->cnt < p->max)) {	/* greedy: try another iteration first */
			again.kind = 2;
			again.node = k->node;
			again.cnt = k->cnt + 1;
			again.start = pos;
			again.next = k->next;
			if (m_run(p->a, pos, &again))
				return 1;
		}
		if (k->cnt >= p->min)
			return m_cont(k->next, pos);
		return 0;
	}
}
static int m_run(int n, int pos, struct rcont *k)
{
	struct rnd *p = &R_n[n];
	struct rcont c;
	int i, cp, in;
	if (--M_fuel < 0)
		return 0;
	switch (p->t) {
	case R_EMPTY:
		return m_cont(k, pos);
	case R_LIT:
		if (pos >= M_len)
			return 0;
		cp = m_cp(pos);
		if (m_fold(cp) != m_fold(p->cp))
			return 0;
		return m_cont(k, pos + m_clen(pos));
	case R_ANY:
		if (pos >= M_len || M_s[pos] == '\n')
			return 0;
		return m_cont(k, pos + m_clen(pos));
	case R_SET:
		if (pos >= M_len)
			return 0;
		cp = m_cp(pos);
		if (cp == '\n' && p->neg)
			return 0;
		in = 0;
		for (i = 0; i < p->nset; i++) {
			if (cp >= p->lo[i] && cp <= p->hi[i])
				in = 1;
			if (M_icase && cp < 128) {	/* either case of an ASCII letter */
				int lc = cp >= 'A' && cp <= 'Z' ? cp + 32 : cp;
				int uc = cp >= 'a' && cp <= 'z' ? cp - 32 : cp;
				if ((lc >= p->lo[i] && lc <= p->hi[i]) || (uc >= p->lo[i] && uc <= p->hi[i]))
					in = 1;
			}
		}
		if (in == p->neg)
			return 0;
		return m_cont(k, pos + m_clen(pos));
	case R_BOL:
		if (!((pos == 0 && !M_notbol) || (pos > 0 && M_s[pos - 1] == '\n')))
			return 0;
		return m_cont(k, pos);
	case R_EOL:
		if (!((pos == M_len && !M_noteol) || (pos < M_len && M_s[pos] == '\n')))
			return 0;
		return m_cont(k, pos);
	case R_WBEG:
		if (!(pos < M_len && !m_wordbefore(pos) && m_wordat(pos)))
			return 0;
		return m_cont(k, pos);
	case R_WEND:
		if (!(m_wordbefore(pos) && (pos >= M_len || !m_wordat(pos))))
			return 0;
		return m_cont(k, pos);
	case R_GRP:
		c.kind = 1;
		c.node = n;
		c.start = pos;
		c.next = k;
		return m_run(p->a, pos, &c);
	case R_CAT:
		c.kind = 0;
		c.node = p->b;
		c.next = k;
		return m_run(p->a, pos, &c);
	case R_ALT:
		if (m_run(p->a, pos, k))
			return 1;
		return m_run(p->b, pos, k);
	case R_REP:
		c.kind = 2;
		c.node = n;
		c.cnt = 0;
		c.start = -2;		/* not an iteration end: never "empty" */
		c.next = k;
		return m_cont(&c, pos);
	}
	return 0;
}
static void ref_setline(const char *s, int icase, int notbol, int noteol)
{
	M_s = (const unsigned char *) s;
	M_len = strlen(s);
	M_icase = icase;
	M_notbol = notbol;
	M_noteol = noteol;
}
/* first parse in priority order starting exactly at start; returns the end offset or -1; captures in M_cap */
static int ref_match_at(int start)
{
	int g;
	for (g = 0; g < R_MAXG; g++)
		M_cap[g][0] = M_cap[g][1] = -1;
	M_mode = 0;
	M_fuel = 400000;
	if (!m_run(R_root, start, NULL))
		return -1;
	return M_end;
}
/* is there any parse from start that ends at end with the given spans for groups 1..ncheck */
static int ref_exists(int start, int end, int ncheck, int (*caps)[2])
{
	int g;
	for (g = 0; g < R_MAXG; g++)
		M_cap[g][0] = M_cap[g][1] = -1;
	for (g = 1; g <= ncheck && g < R_MAXG; g++) {
		M_wantcap[g][0] = caps[g][0];
		M_wantcap[g][1] = caps[g][1];
	}
	M_ncheck = ncheck;
	M_wantend = end;
	M_mode = 1;
	M_fuel = 400000;
	return m_run(R_root, start, NULL);
}
/* leftmost match: tries every character start, and the end of a non-empty string; returns 1 if found */
static int ref_search(int *so, int *eo)
{
	int pos = 0;
	if (M_len == 0)
		return 0;
	for (;;) {
		int e = ref_match_at(pos);
		if (e >= 0) {
			*so = pos;
			*eo = e;
			return 1;
		}
		if (pos >= M_len)
			return 0;
		pos += m_clen(pos);
		if (pos >= M_len && M_s[M_len - 1] == '\n')
			return 0;	/* the position after the terminating newline is not part of the line */
	}
}
#endif
