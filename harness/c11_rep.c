/*
 * C11-H2: repetition bounds and group counts.  Templates X{M,N}, X{M}, X{M,}, (X){M,N}, X{M,N}{P},
 * (a|b){M,N} with M, N solver-chosen from a value set that brackets the limits (NREPS = 128),
 * and nests / sequences of K groups around NGRPS = 64.  The program must fit its allocation
 * (every store is bounds-checked by the engine), inverted or oversized bounds must be rejected or
 * compiled safely, and matching stays inside the line.
 */
#include <string.h>
#include <stdlib.h>
#include "vi.h"
#include "regex.h"
#include "symx.h"
#ifndef TMPL
#define TMPL 0
#endif
#ifndef FULL
#define FULL 0
#endif
static int inset(int v)
{
#if FULL
	return v >= 0 && v <= FULL;
#else
	return (v >= 0 && v <= 9) || (v >= 63 && v <= 65) || (v >= 126 && v <= 130) || v == 256 || v == 999;
#endif
}
static char line[300];
static void mkline(void)
{
	memset(line, 'a', 140);
	line[140] = '\n';
	line[141] = 0;
}
static int want_so = -1, want_eo = -1;	/* expected span on the long line, if known */
static void check(char *pat)
{
	struct rset *rs;
	int g[8], i, r;
	char *pp = pat;
	symx_observe_mem("pat", pat, strlen(pat) + 1);
	rs = rset_make(1, &pp, 0);
	if (!rs) {
		symx_reach("rejected");
		return;
	}
	symx_reach("compiled");
	for (i = 0; i < 8; i++)
		g[i] = -7;
	r = rset_find(rs, line, 4, g, 0);
	symx_observe("r", r);
	if (r >= 0) {
		symx_reach("matched");
		symx_assert(0 <= g[0] && g[0] <= g[1] && g[1] <= 141, "0 <= start <= end <= length");
		symx_observe("so", g[0]);
		symx_observe("eo", g[1]);
		if (want_so >= 0)
			symx_assert(g[0] == want_so && g[1] == want_eo, "many groups: the match is the expected one");
	} else if (want_so >= 0) {
		symx_assert(0, "many groups: the pattern matches the long line");
	}
	r = rset_find(rs, "b\n", 4, g, 0);
	if (r >= 0)
		symx_assert(0 <= g[0] && g[0] <= g[1] && g[1] <= 2, "0 <= start <= end <= length (short line)");
	rset_free(rs);
}
void harness(void)
{
	char pat[600];
	int m, n, k, i, len = 0;
	mkline();
#if TMPL <= 5
	m = symx_i32("m");
	n = symx_i32("n");
	symx_assume(inset(m) && inset(n));
	if (TMPL == 0) sprintf(pat, "a{%d,%d}", m, n);
	if (TMPL == 1) sprintf(pat, "a{%d}b{%d,}", m, n);
	if (TMPL == 2) sprintf(pat, "(ab?){%d,%d}", m, n);
	if (TMPL == 3) sprintf(pat, "(a|b){%d,%d}x", m, n);
	if (TMPL == 4) { symx_assume(m <= 9 && n <= 9); sprintf(pat, "a{%d,%d}{%d}", m, n, symx_conc(symx_u8("p") % 4)); }
	if (TMPL == 5) { symx_assume(m <= 9 && n <= 9); sprintf(pat, "((a){%d,%d}){%d,}", m, n, symx_conc(symx_u8("p") % 4)); }
	check(pat);
#elif TMPL == 8
	/* counts around 2^31 and 2^32 (int overflow while reading the digits) */
	{
		static const char *big[] = {"2147483647", "2147483648", "4294967294", "4294967295", "4294967296", "4294967297", "99999999999"};
		m = symx_conc(symx_u8("m") % 7);
		n = symx_conc(symx_u8("n") % 8);
		if (n == 7)
			sprintf(pat, "a{%s}", big[m]);
		else
			sprintf(pat, "a{%s,%s}", big[m], big[n]);
		check(pat);
	}
#else
	/* K nested or K consecutive groups */
	k = symx_u8("k");
	symx_assume((k >= 1 && k <= 3) || (k >= 30 && k <= 34) || (k >= 61 && k <= 67) || k == 100);
	k = symx_conc(k);
	if (TMPL == 6) {
		for (i = 0; i < k; i++) pat[len++] = '(';
		pat[len++] = 'a';
		for (i = 0; i < k; i++) pat[len++] = ')';
	} else {
		for (i = 0; i < k; i++) { pat[len++] = '('; pat[len++] = 'a'; pat[len++] = ')'; }
	}
	pat[len] = 0;
	want_so = 0;
	want_eo = TMPL == 6 ? 1 : k;
	check(pat);
#endif
	symx_reach("end");
}
