/*
 * C03 (and the write-out clause of C01): writing every buffer at once.
 * Two buffers (f1 with 3 lines; f2 with 1, 3 or 7 lines, so that it is shorter than, as long as and longer
 * than the first), each modified or not, the second one current; optionally one of the two files has been
 * rewritten by somebody else since it was read.  Then :xa, :xa!, or :q with autowrite set.
 * Oracle: a file that became newer on disk is left alone unless '!' was given; every file the editor did
 * write holds exactly the lines of its own buffer; the editor leaves only if nothing is lost; it stays (and
 * says so) exactly when a buffer could not be written.
 */
#include <stdio.h>
#include "exh.h"
static char *text[2];
static char *fname[2] = {"f1", "f2"};
static int file_is(const char *name, const char *want)
{
	int i = env_find(name);
	long n = strlen(want);
	return i >= 0 && env_fs[i].exists && env_fs[i].len == n && !memcmp(env_fs[i].data, want, n);
}
static long touched(const char *name)
{
	int i = env_find(name);
	return i < 0 ? 0 : env_fs[i].writes + env_fs[i].truncs;
}
void harness(void)
{
	char *files[] = {"f1", NULL};
	static char t2[64];
	int l2, mod[2], newer, cmd, force, i, n = 0, st, anynewer = 0, lost = 0;
	long before[2];
	env_mkfile("f1", "a1\na2\na3\n", 9, 5);
	exh_start(files);
	l2 = symx_conc(symx_u8("len2") % 3);
	for (i = 0; i < (l2 == 0 ? 1 : l2 == 1 ? 3 : 7); i++)
		n += sprintf(t2 + n, "b%d\n", i + 1);
	env_mkfile("f2", t2, n, 5);
	mod[0] = symx_conc(symx_u8("mod1") & 1);
	mod[1] = symx_conc(symx_u8("mod2") & 1);
	if (mod[0]) {
		exh_input("n1\n.\n");
		symx_assert(exh_cmd("$a") == 0, "append in f1");
	}
	text[0] = exh_text();
	st = exh_cmd(mod[0] ? "e! f2" : "e f2");
	symx_assert(st == 0 && !strcmp(ex_path(), "f2"), "the second file is opened");
	if (mod[1]) {
		exh_input("n2\n.\n");
		symx_assert(exh_cmd("1a") == 0, "append in f2");
	}
	text[1] = exh_text();
	newer = symx_conc(symx_u8("newer") % 3);	/* 0: neither; 1: f1; 2: f2 was rewritten by somebody else */
	if (newer)
		env_mkfile(fname[newer - 1], "foreign\n", 8, 50);
	cmd = symx_conc(symx_u8("cmd") % 3);		/* xa, xa!, se aw + q */
	force = cmd == 1;
	for (i = 0; i < 2; i++)
		before[i] = touched(fname[i]);
	if (cmd == 2)
		exh_cmd("se aw");
	exh_cmd(cmd == 0 ? "xa" : cmd == 1 ? "xa!" : "q");
	for (i = 0; i < 2; i++) {
		int isnewer = newer == i + 1;
		if (isnewer && !force) {
			symx_assert(file_is(fname[i], "foreign\n"), "a file that became newer on disk is not overwritten without !");
			symx_reach("newer-kept");
		} else if (touched(fname[i]) != before[i]) {
			symx_assert(file_is(fname[i], text[i]), "a written file holds exactly the lines of its own buffer");
			symx_reach("written");
		}
		if (isnewer && !force && (cmd != 2 || mod[i]))
			anynewer = 1;
		if (mod[i] && !file_is(fname[i], text[i]))
			lost = 1;
	}
	if (xquit)
		symx_assert(!lost, "the editor leaves only when every modified buffer is on disk");
	symx_assert(xquit == !anynewer, "the editor stays exactly when a buffer could not be written");
	symx_observe("xquit", xquit);
	symx_reach(xquit ? "left" : "stayed");
	symx_reach("end");
}
