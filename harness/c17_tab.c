/*
 * C17-H2: the width class of every code point is the one the tables list.
 * A symbolic code point over all of U+0001..U+10FFFF (encoded by the harness): uc_wid, uc_isbell and
 * uc_iscomb, which search the sorted range tables by bisection, must agree with a linear scan of the
 * same tables (i.e. the tables are sorted and disjoint enough for the bisection to be right).
 */
#include "uc.c"
#include "symx.h"
struct lbuf *ex_lbuf(void) { return NULL; }
static int lin(int c, int tab[][2], int n)
{
	int i, in = 0;
	for (i = 0; i < n; i++)
		in |= (c >= tab[i][0]) & (c <= tab[i][1]);
	return in;
}
static int put(char *d, int cp)
{
	if (cp < 0x80) { d[0] = cp; return 1; }
	if (cp < 0x800) { d[0] = 0xc0 | (cp >> 6); d[1] = 0x80 | (cp & 0x3f); return 2; }
	if (cp < 0x10000) { d[0] = 0xe0 | (cp >> 12); d[1] = 0x80 | ((cp >> 6) & 0x3f); d[2] = 0x80 | (cp & 0x3f); return 3; }
	d[0] = 0xf0 | (cp >> 18); d[1] = 0x80 | ((cp >> 12) & 0x3f); d[2] = 0x80 | ((cp >> 6) & 0x3f); d[3] = 0x80 | (cp & 0x3f);
	return 4;
}
void harness(void)
{
	char b[8];
	int c = symx_i32("cp"), zw, dw, bell, l;
	symx_assume(c >= 1 && c <= 0x10ffff && !(c >= 0xd800 && c <= 0xdfff));
	l = put(b, c);
	b[l] = 0;
	symx_assert(uc_code(b) == c, "decoding the encoding gives the code point");
	zw = lin(c, zwchars, LEN(zwchars));
	dw = lin(c, dwchars, LEN(dwchars));
	bell = lin(c, bchars, LEN(bchars));
	symx_assert(uc_wid(b) == (zw ? 0 : dw ? 2 : 1), "uc_wid is the width the tables list");
	if (c == ' ' || c == '\t' || c == '\n' || (c >= 0x20 && c < 0x7f))
		symx_assert(!uc_isbell(b), "printable ASCII is never a bell character");
	else
		symx_assert(!!uc_isbell(b) == (zw || bell), "uc_isbell is what the tables list");
	symx_reach("end");
}
