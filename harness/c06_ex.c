/*
 * C06: ex line commands change exactly the addressed lines (reference line editor).
 * State: NL distinct lines L1..; symbolic current line; marks a, b on symbolic lines or unset;
 * register x = two lines.  One command from {d, y x, y X, pu x, p, =, ka, a, i, c, r file, rs y, @z}
 * with an address expression from 18 forms whose numbers are symbolic digits.  Oracle: the address is
 * resolved on a model (1-based, no wrap for /pat/ and ?pat?), the command is applied to the model's
 * line array; compared: buffer, printed lines (p, =), current line, registers, and afterwards the
 * positions of marks a and b (they follow their lines).  An address that does not resolve leaves
 * buffer and registers unchanged and prints nothing (whether an error is reported is not asserted).
 */
#include "exh.h"
#ifndef NL
#define NL 3
#endif
static int ML[16], mn;		/* model: line ids in order (id k has text "L<k+1>", ids >= 100 are new lines) */
static char newtext[8][8];
static int nnew;
static int mcur;		/* current line, 1-based */
static int marka, markb;	/* ids or -1 */
static void mtext(int id, char *d)
{
	if (id >= 100)
		strcpy(d, newtext[id - 100]);
	else
		sprintf(d, "L%d", id + 1);
}
static int mnew(const char *t) { strcpy(newtext[nnew], t); return 100 + nnew++; }
static void mins(int pos, int id) { int k; for (k = mn; k > pos; k--) ML[k] = ML[k - 1]; ML[pos] = id; mn++; }	/* before 0-based pos */
static void mdel(int pos) { int k; for (k = pos; k + 1 < mn; k++) ML[k] = ML[k + 1]; mn--; }
static int mpos(int id) { int k; for (k = 0; k < mn; k++) if (ML[k] == id) return k + 1; return 0; }
static void mrender(char *d)
{
	int k;
	d[0] = 0;
	for (k = 0; k < mn; k++) {
		mtext(ML[k], d + strlen(d));
		strcat(d, "\n");
	}
}
/* search for the line whose text contains "L<t>" from the current line, no wrap; 0 if none */
static int msearch(int t, int dir)
{
	int k;
	for (k = mcur + dir; k >= 1 && k <= mn; k += dir)
		if (ML[k - 1] == t - 1)
			return k;
	return 0;
}

void harness(void)
{
	char *files[] = {"f", NULL};
	char text[64], addr[32], cmd[64], want[160], out[160], *got;
	int i, form, c, N, M, a1 = 0, a2 = 0, naddr = 0, bad = 0, cur0, tn, addtext, zero_ok;
	env_mkfile("f", "x\n", 2, 5);
	env_mkfile("rf", "F1\nF2\n", 6, 5);
	exh_start(files);
	text[0] = 0;
	for (i = 0; i < NL; i++) {
		sprintf(text + strlen(text), "L%d\n", i + 1);
		ML[i] = i;
	}
	mn = NL;
	lbuf_edit(xb, text, 0, lbuf_len(xb));
	lbuf_saved(xb, 1);
	/* current line, marks, registers */
	mcur = symx_u8("cur");
	symx_assume(mcur >= 1 && mcur <= NL);
	mcur = symx_conc(mcur);
	xrow = mcur - 1;
	marka = symx_u8("marka");
	markb = symx_u8("markb");
	symx_assume(marka <= NL && markb <= NL);
	marka = symx_conc(marka) - 1;
	markb = symx_conc(markb) - 1;
	if (marka >= 0) lbuf_mark(xb, 'a', marka, 0);
	if (markb >= 0) lbuf_mark(xb, 'b', markb, 0);
	reg_put('x', "R1\nR2\n", 1);
	reg_put('z', "s/L/M/", 0);
	/* the address */
	form = symx_u8("form");
	symx_assume(form < 21);
	form = symx_conc(form);
	N = symx_u8("N");
	M = symx_u8("M");
	symx_assume(N <= NL + 1 && M <= NL + 1);
	N = symx_conc(N);
	M = form >= 11 ? symx_conc(M) : 0;	/* second number / offset */
	switch (form) {
	case 0: addr[0] = 0; a1 = a2 = mcur; break;
	case 1: sprintf(addr, "%d", N); a1 = a2 = N; naddr = 1; break;
	case 2: strcpy(addr, "."); a1 = a2 = mcur; naddr = 1; break;
	case 3: strcpy(addr, "$"); a1 = a2 = mn; naddr = 1; break;
	case 4: strcpy(addr, "'a"); a1 = a2 = marka >= 0 ? marka + 1 : -9; naddr = 1; break;
	case 5: sprintf(addr, "+%d", N); a1 = a2 = mcur + N; naddr = 1; break;
	case 6: sprintf(addr, "-%d", N); a1 = a2 = mcur - N; naddr = 1; break;
	case 7: sprintf(addr, ".+%d", N); a1 = a2 = mcur + N; naddr = 1; break;
	case 8: sprintf(addr, "$-%d", N); a1 = a2 = mn - N; naddr = 1; break;
	case 9: symx_assume(N >= 1 && N <= NL); sprintf(addr, "/L%d/", N); a1 = a2 = msearch(N, 1); if (!a1) a1 = a2 = -9; naddr = 1; break;
	case 10: symx_assume(N >= 1 && N <= NL); sprintf(addr, "?L%d?", N); a1 = a2 = msearch(N, -1); if (!a1) a1 = a2 = -9; naddr = 1; break;
	case 11: sprintf(addr, "%d,%d", N, M); a1 = N; a2 = M; naddr = 2; break;
	case 12: sprintf(addr, "%d;+%d", N, M); a1 = N; a2 = N + M; naddr = 2; break;
	case 13: strcpy(addr, "%"); a1 = 1; a2 = mn; naddr = 2; break;
	case 14: strcpy(addr, "'a,'b"); a1 = marka >= 0 ? marka + 1 : -9; a2 = markb >= 0 ? markb + 1 : -9; naddr = 2; break;
	case 15: sprintf(addr, "%d,$", N); a1 = N; a2 = mn; naddr = 2; break;
	case 16: sprintf(addr, ".,+%d", N); a1 = mcur; a2 = mcur + N; naddr = 2; break;
	case 17: strcpy(addr, "0"); a1 = a2 = 0; naddr = 1; break;
	case 18: symx_assume(N >= 1 && N <= NL); sprintf(addr, "/L%d/+%d", N, M); a1 = a2 = msearch(N, 1); a1 = a2 = a1 ? a1 + M : -9; naddr = 1; break;
	case 19: sprintf(addr, "'a+%d", M); a1 = a2 = marka >= 0 ? marka + 1 + M : -9; naddr = 1; break;
	case 20: symx_assume(N >= 1 && N <= NL); sprintf(addr, "1,?L%d?+%d", N, M); a1 = 1; a2 = msearch(N, -1); a2 = a2 ? a2 + M : -9; naddr = 2; break;
	}
	/* the command */
	c = symx_u8("cmd");
	symx_assume(c < 13);
	c = symx_conc(c);
	addtext = c == 2 || c == 6 || c == 7 || c == 9;		/* pu, a, i, r (and c): address 0 means before the first line */
	zero_ok = addtext || c == 4 || c == 8;	/* pu a i c r: 0 is 'before the first line'; 0= prints 0 */
	bad = a1 < (zero_ok && a2 == 0 ? 0 : 1) || a2 < a1 || a2 > mn || a1 == -9 || a2 == -9;
	if (c == 10)
		bad = 0;	/* rs takes no address and never looks at one */
	if (form == 12 && N >= 1 && N <= mn && c != 10)
		mcur = N;	/* ';' moves the current line even if the command then fails */
	cur0 = mcur;
	{
		static const char *cs[] = {"d", "y x", "pu x", "p", "=", "ka", "a", "i", "c", "r rf", "rs y", "@ z", "y X"};
		snprintf(cmd, sizeof(cmd), "%s%s", addr, cs[c]);
	}
	/* the text block of a / i / c: two lines, one line, or none at all (the lone "." comes at once) */
	tn = 2;
	if (c == 6 || c == 7 || c == 8) {
		tn = symx_u8("textlines");
		symx_assume(tn <= 2);
		tn = symx_conc(tn);
	}
	if (c == 6 || c == 7 || c == 8 || c == 10)
		exh_input(tn == 2 ? "T1\nT2\n.\n" : tn == 1 ? "T1\n.\n" : ".\n");
	symx_observe("textlines", tn);
	symx_observe_mem("cmd", cmd, strlen(cmd) + 1);
	symx_observe("cur", cur0);
	out[0] = 0;
	exh_out_reset();
	exh_cmd(cmd);
	/* the model */
	if (bad) {
		symx_reach("rejected");
	} else {
		int k;
		char t[16];
		symx_reach("applied");
		switch (c) {
		case 0:		/* d */
			for (k = a1; k <= a2; k++) {
				if (ML[a1 - 1] == marka) marka = -1;
				if (ML[a1 - 1] == markb) markb = -1;
				mdel(a1 - 1);
			}
			mcur = a1 <= mn ? a1 : mn ? mn : 1;
			break;
		case 1:		/* y x */
		case 12:	/* y X: appends to register x */
			break;
		case 2:		/* pu x: after the last addressed line */
			mins(a2, mnew("R1"));
			mins(a2 + 1, mnew("R2"));
			mcur = a2 + 2;
			break;
		case 3:		/* p */
			for (k = a1; k <= a2; k++) {
				mtext(ML[k - 1], t);
				strcat(out, t);
				strcat(out, "\n");
			}
			mcur = a2;
			break;
		case 4:		/* = prints the number of the last addressed line */
			sprintf(out, "%d\n", a2);
			break;
		case 5:		/* ka */
			marka = ML[a2 - 1];
			break;
		case 6:		/* a: after the addressed line */
			for (k = 0; k < tn; k++)
				mins(a2 + k, mnew(k ? "T2" : "T1"));
			mcur = tn ? a2 + tn : a2 ? a2 : 1;	/* no text: the addressed line (the first one for 0a) */
			break;
		case 7:		/* i: before the addressed line (0i: before the first line) */
			k = a2 ? a2 : 1;	/* one-address command: the last address counts */
			{
				int j;
				for (j = 0; j < tn; j++)
					mins(k - 1 + j, mnew(j ? "T2" : "T1"));
				mcur = tn ? k - 1 + tn : k - 1 >= 1 ? k - 1 : 1;	/* no text: the line before, or the first one */
			}
			break;
		case 8:		/* c (0c: nothing is replaced, the text goes before the first line) */
			if (!a1) {
				for (k = 0; k < tn; k++)
					mins(k, mnew(k ? "T2" : "T1"));
				mcur = tn ? tn : 1;
				break;
			}
			for (k = a1; k <= a2; k++) {
				if (ML[a1 - 1] == marka) marka = -2;	/* a changed line: the mark may stay on the new text or go */
				if (ML[a1 - 1] == markb) markb = -2;
				mdel(a1 - 1);
			}
			for (k = 0; k < tn; k++)
				mins(a1 - 1 + k, mnew(k ? "T2" : "T1"));
			mcur = tn ? a1 - 1 + tn : a1 - 1 >= 1 ? a1 - 1 : 1;	/* no text: the line before the range, or the first one */
			break;
		case 9:		/* r rf: after the last addressed line */
			mins(a2, mnew("F1"));
			mins(a2 + 1, mnew("F2"));
			mcur = a2 + 2;
			break;
		case 10:	/* rs y */
			break;
		case 11:	/* @ z: run "s/L/M/" with the first addressed line as the current line */
			mtext(ML[a1 - 1], t);
			if (t[0] == 'L') {
				t[0] = 'M';
				if (ML[a1 - 1] == marka) marka = -2;
				if (ML[a1 - 1] == markb) markb = -2;
				ML[a1 - 1] = mnew(t);
			}
			mcur = a1;
			break;
		}
	}
	mrender(want);
	got = exh_text();
	symx_observe_mem("got", got, strlen(got) + 1);
	symx_assert(!strcmp(got, want), bad ? "an address that does not resolve leaves the buffer unchanged" :
		"the buffer equals the reference: only the addressed range is replaced");
	free(got);
	if (c == 3 || c == 4 || bad) {
		char *o = exh_out();
		if (bad && (c == 9 || c == 11))
			;	/* messages of r and of the executed command are not compared */
		else if (!bad || c == 3 || c == 4)
			symx_assert(!strcmp(o, bad ? "" : out), bad ? "an address that does not resolve prints nothing" : "the printed lines are the addressed lines");
	}
	/* registers */
	{
		int lnm = 0;
		char *rx = reg_get('x', &lnm), *ry = reg_get('y', &lnm);
		if ((c == 1 || c == 12) && !bad) {
			char exp[64];
			int k;
			exp[0] = 0;
			if (c == 12)
				strcpy(exp, "R1\nR2\n");
			for (k = a1; k <= a2; k++) {
				char t[16];
				mtext(ML[k - 1], t);
				strcat(exp, t);
				strcat(exp, "\n");
			}
			symx_assert(rx && !strcmp(rx, exp), c == 12 ? "y X appends the addressed lines to register x" : "y x stores exactly the addressed lines");
		} else if (!bad || (c != 0 && c != 1 && c != 12)) {
			/* (d and y with an address that does not resolve store an empty text: not covered by the property) */
			symx_assert(rx && !strcmp(rx, "R1\nR2\n"), "register x is unchanged");
		}
		if (c == 10)	/* rs takes no address: the text block is stored whatever the address */
			symx_assert(ry && !strcmp(ry, "T1\nT2\n"), "rs y stores the text block");
		else
			symx_assert(ry == NULL, "register y is unset");
	}
	/* current line */
	if (!bad && c != 11 && !(form == 12 && N == 0))	/* (0; leaves the current line before the first line) */
		symx_assert(xrow == mcur - 1, "the current line is the reference one");
	/* marks follow their lines */
	{
		int p = -1, o = 0, r;
		if (marka != -2 && !(bad && c == 5)) {	/* (k with an address that does not resolve unsets the mark: not covered) */
			r = lbuf_jump(xb, 'a', &p, &o);
			if (marka < 0)
				symx_assert(r != 0, "a mark whose line was deleted (or never set) is unset");
			else
				symx_assert(r == 0 && p == mpos(marka) - 1, "mark a still designates the same line");
		}
		if (markb != -2) {
			r = lbuf_jump(xb, 'b', &p, &o);
			if (markb < 0)
				symx_assert(r != 0, "a mark whose line was deleted (or never set) is unset");
			else
				symx_assert(r == 0 && p == mpos(markb) - 1, "mark b still designates the same line");
		}
	}
	symx_reach("end");
}
