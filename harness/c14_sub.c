/*
 * C14: :s rewrites exactly the leftmost non-overlapping matches.
 * A 3-line buffer; line 2 is symbolic (LL character slots); the command 2s/PAT/REP/[g] is assembled
 * from a pattern template with symbolic placeholder characters and a replacement of NP symbolic
 * pieces (a literal character, a group reference \0..\3, an escaped character), g symbolic.
 * Oracle: scan the ORIGINAL line left to right with the reference matcher in whole-line context
 * (^ only at the true line start), non-overlapping, one character forward after an empty match;
 * unset group => empty; the other lines are byte-identical; the result is valid UTF-8.
 */
#include "exh.h"
#include "slots.h"
#include "ref_re.h"
#include "utf8ref.h"
#ifndef LL
#define LL 3
#endif
#ifndef NP
#define NP 2
#endif
#ifndef TSET
#define TSET 0
#endif
#ifndef MAXREF
#define MAXREF 2
#endif
static const char *T0[] = {"x", "xy", "x*", "^x", "^", "x$", "$", ".", "[xy]", "[^x]", "\\<x", "x\\>", "\\<", NULL};
static const char *T1[] = {"(x)", "(x)(y)", "(x|y)", "(x)|y", "(x)?y", "(x*)(y)", "(x|y)*", "x*y*", "^(x)*", "(^|y)x", NULL};
static const char *T2[] = {"(.)(.)", "(x)*$", "(^x|y)", "^x|y", "[x\\](y)", NULL};
static const char **TS[] = {T0, T1, T2};
#define CLS (SL_ASCII | SL_2B)

void harness(void)
{
	char *files[] = {"f", NULL};
	char file[64], pat[64], rep[32], cmd[160], line[LL * 4 + 2], want[256], *got;
	int reppiece[NP][2];	/* kind, value */
	int t, nt, i, len, g, n, pos, wl, first = 1;
	const char **tab = TS[TSET];
	/* start the editor first: everything up to here is shared by all paths */
	env_mkfile("f", "top\nmid\nbot\n", 12, 5);
	exh_start(files);
	for (nt = 0; tab[nt]; nt++)
		;
	t = symx_u8("tmpl");
	symx_assume(t < nt);
	t = symx_conc(t);
	for (i = 0; i < 4; i++) {
		char b[8];
		int l;
		if (!strchr(tab[t], "xyzw"[i])) {
			R_ph[i] = 'q';
			continue;
		}
		l = slot_gen(b, "ph", CLS, "aA1");
		b[l] = 0;
		ref_setline(b, 0, 0, 0);
		R_ph[i] = m_cp(0);
	}
	symx_assert(ref_parse(tab[t]) == 0, "template parses");
	ref_pattern(tab[t], pat);
	/* the replacement */
	n = 0;
	for (i = 0; i < NP; i++) {
		int kind = symx_u8("rk");
		/* 0 nothing, 1 literal, 2 group reference, 3 escaped character; the first piece is never empty */
		symx_assume(kind < 4 && (i > 0 || kind != 0));
		kind = symx_conc(kind);
		reppiece[i][0] = kind;
		reppiece[i][1] = 0;
		if (kind == 1) {
			unsigned char c = symx_u8("rc");
			symx_assume(c == 'R' || c == '-' || c == '&' || c == '|' || c == '"');
			rep[n++] = c;
			reppiece[i][1] = c;
		} else if (kind == 2) {
			int d = symx_u8("rd");
			symx_assume(d <= MAXREF);
			d = symx_conc(d);
			rep[n++] = '\\';
			rep[n++] = '0' + d;
			reppiece[i][1] = d;
		} else if (kind == 3) {
			unsigned char c = symx_u8("re");
			symx_assume(c == '\\' || c == 'n' || c == '.' || c == '/');
			rep[n++] = '\\';
			rep[n++] = c;
			reppiece[i][1] = c;
		}
	}
	rep[n] = 0;
	g = symx_conc(symx_u8("g") & 1);
	len = slots_text(line, "ln", LL, CLS, "aA1 ", NULL);
	line[len] = '\n';
	line[len + 1] = 0;
	lbuf_edit(xb, line, 1, 2);	/* the symbolic target line */
	lbuf_modified(xb);
	(void) file;
#ifdef SYMIC
	xic = symx_conc(symx_u8("ic") & 1);
#else
	xic = 0;
#endif
	snprintf(cmd, sizeof(cmd), "2s/%s/%s/%s", pat, rep, g ? "g" : "");
	symx_observe_mem("cmd", cmd, strlen(cmd) + 1);
	symx_observe_mem("line", line, len + 2);
	exh_cmd(cmd);
	/* the reference result */
	ref_setline(line, xic, 0, 0);
	wl = 0;
	pos = 0;
	while (pos <= len) {
		int s, e = -1, k, j;
		/* leftmost match starting at or after pos, judged against the whole line */
		for (s = pos; s <= len; s += s < len ? m_clen(s) : 1)
			if ((e = ref_match_at(s)) >= 0)
				break;
		if (e < 0)
			break;
		symx_reach("match");
		memcpy(want + wl, line + pos, s - pos);
		wl += s - pos;
		for (k = 0; k < NP; k++) {
			if (reppiece[k][0] == 1 || reppiece[k][0] == 3)
				want[wl++] = reppiece[k][1];
			if (reppiece[k][0] == 2) {
				int d = reppiece[k][1];
				int a = d == 0 ? s : (d <= R_ngrp ? M_cap[d][0] : -1), b = d == 0 ? e : (d <= R_ngrp ? M_cap[d][1] : -1);
				for (j = a; a >= 0 && j < b; j++)
					want[wl++] = line[j];
			}
		}
		pos = e;
		if (e == s) {		/* empty match: the next character is copied and the scan goes on behind it */
			int l = pos < len ? m_clen(pos) : 1;
			if (pos >= len)
				break;
			memcpy(want + wl, line + pos, l);
			wl += l;
			pos += l;
		}
		first = 0;
		if (!g || pos >= len)
			break;
	}
	memcpy(want + wl, line + pos, len + 1 - pos > 0 ? len + 1 - pos : 0);
	wl += len + 1 - pos > 0 ? len + 1 - pos : 0;
	want[wl] = 0;
	(void) first;
	got = exh_text();
	symx_observe_mem("got", got, strlen(got) + 1);
	symx_assert(!strncmp(got, "top\n", 4), "the line before the range is unchanged");
	symx_assert(strlen(got) >= 8 && !strcmp(got + strlen(got) - 4, "bot\n"), "the line after the range is unchanged");
	{
		char exp[300];
		snprintf(exp, sizeof(exp), "top\n%sbot\n", want);
		symx_assert(!strcmp(got, exp), "the line equals the reference substitution of the original line");
	}
	symx_assert(ref_valid((unsigned char *) got, strlen(got)), "valid UTF-8 stays valid UTF-8");
	free(got);
	symx_reach("end");
}
