/*
 * C04-H1: undo/redo histories at the line-buffer interface.
 * K operations, each chosen by the solver from
 *   0 edit as a command of its own, 1 compound command of two edits, 2 undo, 3 redo,
 *   4 lbuf_saved(clear) as after loading a file, 5 lbuf_saved(keep) as after :w,
 *   6 a command that edits nothing (a deletion wholly past the end).
 * An edit replaces a solver-chosen range [beg,end) by a solver-chosen text of up to TL bytes over
 * {'a', newline} (or deletes it).  Ghost state: the text after every not-undone command.
 * Oracle: undo yields exactly the text before the most recent not-undone command however many
 * sub-edits it had; redo the matching one; a new edit discards the redo branch; undo/redo at the
 * ends return 1 and change nothing; a mark set inside a deleted range comes back with undo.
 */
#include <string.h>
#include <stdlib.h>
#include "vi.h"
#include "symx.h"
static struct lbuf *LB;
struct lbuf *ex_lbuf(void) { return LB; }
#ifndef K
#define K 3
#endif
#ifndef TL
#define TL 3
#endif
#ifndef SMALL
#define SMALL 0
#endif
#ifndef NOPS
#define NOPS 4	/* 6: also 'history cleared by a load' and 'saved' */
#endif
#define SNAP 96
static char snap[K + 2][SNAP];
static void take(char *dst)
{
	char *s = lbuf_cp(LB, 0, lbuf_len(LB));
	symx_assert(strlen(s) < SNAP, "snapshot fits");
	strcpy(dst, s);
	free(s);
}
static int same(char *a)
{
	char cur[SNAP];
	take(cur);
	return !strcmp(cur, a);
}
/* a small edit: delete a range, or replace it by "X\n" or "X\nY\n" (X, Y symbolic letters) */
static int small_edit(void)
{
	char txt[5];
	int kind = symx_u8("kind"), beg = symx_u8("beg"), end = symx_u8("end");
	symx_assume(kind < 3);
	symx_assume(0 <= beg && beg <= end && end <= lbuf_len(LB));
	symx_assume(kind > 0 || end > beg);
	txt[0] = symx_u8("txt");
	txt[2] = symx_u8("txt");
	symx_assume(txt[0] >= 'a' && txt[0] <= 'z' && txt[2] >= 'a' && txt[2] <= 'z');
	txt[1] = txt[3] = '\n';
	txt[4] = 0;
	kind = symx_conc(kind);
	if (kind == 1)
		txt[2] = 0;
	beg = symx_conc(beg);
	end = symx_conc(end);
	if (end > beg)
		lbuf_mark(LB, 'a', beg, 1);	/* a mark on the first line that goes away */
	lbuf_edit(LB, kind ? txt : NULL, beg, end);
	return end > beg ? beg : -1;
}
/* second sub-edit of a compound command: two fixed shapes, chosen by the solver */
static void fixed_edit(void)
{
	int v = symx_conc(symx_u8("second") & 1);
	int n = lbuf_len(LB);
	if (v && n > 0)
		lbuf_edit(LB, NULL, 0, 1);			/* delete the first line */
	else
		lbuf_edit(LB, "y\nz\n", n ? n - 1 : 0, n);	/* replace the last line by two lines */
}
static int one_edit(void)
{
#if SMALL
	return small_edit();
#else
	char txt[TL + 1];
	int has = symx_u8("has") & 1;
	int beg = symx_u8("beg"), end = symx_u8("end"), j;
	for (j = 0; j < TL; j++) {
		txt[j] = symx_u8("txt");
		symx_assume(txt[j] == 0 || txt[j] == 'a' || txt[j] == '\n');
	}
	txt[TL] = 0;
	symx_assume(0 <= beg && beg <= end && end <= lbuf_len(LB));
	symx_assume(has || end > beg);
	beg = symx_conc(beg);
	end = symx_conc(end);
	has = symx_conc(has);
	if (end > beg)
		lbuf_mark(LB, 'a', beg, 1);	/* a mark on the first line that goes away */
	lbuf_edit(LB, has ? txt : NULL, beg, end);
	return end > beg ? beg : -1;
#endif
}
void harness(void)
{
	int k, u = 0, n = 0;	/* u: commands applied, n: commands in the history */
	int markpos = -1, fresh = 0;
	LB = lbuf_make();
	take(snap[0]);
	for (k = 0; k < K; k++) {
		int op = symx_u8("op");
		symx_assume(op < NOPS);
		op = symx_conc(op);
		if (op <= 1) {
			int d, m = -1;
			d = one_edit();
			if (op == 1)
				fixed_edit();
			lbuf_modified(LB);		/* command boundary */
			u++;
			n = u;
			take(snap[u]);
			(void) m;
			fresh = op == 0 && d >= 0;
			markpos = d;
			symx_reach("edit");
		} else if (op == 4) {
			/* the buffer was (re)loaded or saved with a cleared history: nothing to undo or redo any more */
			lbuf_saved(LB, 1);
			take(snap[0]);
			u = n = 0;
			fresh = 0;
			symx_reach("history-cleared");
		} else if (op == 5) {
			lbuf_saved(LB, 0);		/* saved: the history stays */
			fresh = 0;
		} else if (op == 6) {
			/* a command that edits nothing: a deletion wholly past the end of the buffer (vi dd on an empty buffer).
			 * It is no step of the history and does not cut the redo branch */
			int len = lbuf_len(LB), d = symx_conc(symx_u8("past") & 1);
			lbuf_edit(LB, NULL, len + d, len + d + 1);
			lbuf_modified(LB);
			symx_assert(same(snap[u]), "a deletion past the end changes nothing");
			fresh = 0;
			symx_reach("noop");
		} else if (op == 2) {
			int r = lbuf_undo(LB);
			if (u == 0) {
				symx_assert(r == 1, "undo at the start of history fails");
				symx_assert(same(snap[0]), "failed undo leaves the text alone");
				symx_reach("undo-at-start");
			} else {
				symx_assert(r == 0, "undo succeeds");
				u--;
				symx_assert(same(snap[u]), "undo restores the text before the command");
				if (fresh) {
					int p = -1, o = -1;
					/* the mark was either untouched by the edit or saved and restored */
					symx_assert(!lbuf_jump(LB, 'a', &p, &o) && p == markpos, "mark inside the edited range comes back with undo");
				}
				symx_reach("undo");
			}
			fresh = 0;
			lbuf_modified(LB);
		} else {
			int r = lbuf_redo(LB);
			if (u == n) {
				symx_assert(r == 1, "redo at the end of history fails");
				symx_assert(same(snap[u]), "failed redo leaves the text alone");
				symx_reach("redo-at-end");
			} else {
				symx_assert(r == 0, "redo succeeds");
				u++;
				symx_assert(same(snap[u]), "redo reinstates the text after the command");
				symx_reach("redo");
			}
			fresh = 0;
			lbuf_modified(LB);
		}
	}
	/* unwind everything, then replay everything */
	while (u > 0) {
		symx_assert(lbuf_undo(LB) == 0, "undo succeeds (unwinding)");
		u--;
		symx_assert(same(snap[u]), "undo restores the text before the command (unwinding)");
	}
	symx_assert(lbuf_undo(LB) == 1, "undo at the start of history fails (unwinding)");
	while (u < n) {
		symx_assert(lbuf_redo(LB) == 0, "redo succeeds (replaying)");
		u++;
		symx_assert(same(snap[u]), "redo reinstates the text after the command (replaying)");
	}
	symx_assert(lbuf_redo(LB) == 1, "redo at the end of history fails (replaying)");
	{
		char fin[SNAP];
		take(fin);
		symx_observe_mem("final", fin, strlen(fin) + 1);
	}
	symx_reach("end");
	lbuf_free(LB);
}
