/*
 * C05 (prompt history): with hist set, the : prompt completes from earlier command lines into a 64-byte buffer.
 * A history line of solver-chosen length (59..64 ASCII bytes; thorough: 50..70) followed by a multi-byte character at a
 * solver-chosen distance from the buffer end, then the prompt is opened again and a prefix is typed.
 */
#include "vih.h"
#ifndef LEN_LO
#define LEN_LO 59
#define LEN_HI 64
#endif
void harness(void)
{
	char keys[256];
	int n = 0, len, i, cls;
	env_mkfile("f", "ab\ncd\n", 6, 5);
	env_lines = "6";
	env_columns = "40";
	env_exinit = "set hist=5 | set nohl | set noru";
	len = symx_u8("len");
	symx_assume(len >= LEN_LO && len <= LEN_HI);
	len = symx_conc(len);
	cls = symx_conc(symx_u8("cls") % 4);	/* what follows the ASCII run: nothing, 2-, 3-, 4-byte character */
	n += sprintf(keys + n, ":ec ");
	for (i = 0; i < len; i++)
		keys[n++] = 'a' + i % 26;
	if (cls == 1) n += sprintf(keys + n, "\xc3\xa9");
	if (cls == 2) n += sprintf(keys + n, "\xe4\xb8\xad");
	if (cls == 3) n += sprintf(keys + n, "\xf0\x9f\x98\x80");
	n += sprintf(keys + n, " tail\n");
	n += sprintf(keys + n, ":");			/* the prompt again: the history line is offered */
	if (symx_conc(symx_u8("typed") & 1))
		n += sprintf(keys + n, "ec a");		/* a prefix of it typed */
	n += sprintf(keys + n, "\033");
	vih_keys(keys, n);
	vih_run_vi("f");
	symx_reach("end");
}
