/*
 * C18-H1: the visual order is a permutation that reverses exactly the opposite-direction runs.
 * Line of <= LL slots over {Latin letter, digit, blank, '-', Arabic BEH, Arabic ALEF, ZWNJ} plus (MARKS)
 * the mark characters $ \ { } [ ] *, terminated by a newline; td in {-2..2}; order 1/2.
 * Oracle: ord[] is a permutation with the newline last; without mark characters: in a left-to-right line
 * each maximal run "RTL (neutral|RTL)* RTL" is reversed in place, in a right-to-left line each maximal run
 * "Latin (anything but RTL)* Latin", and every other character keeps its index.
 */
#include <stdlib.h>
#include <string.h>
#include "vi.h"
#include "slots.h"
int xorder = 1, xlim = 256, xtd, xshape = 1, xic;
struct lbuf *ex_lbuf(void) { return NULL; }
#ifndef LL
#define LL 4
#endif
void harness(void)
{
	char s[LL * 4 + 24];
	int cls[LL + 12];	/* 0 Latin/digit, 1 neutral, 2 RTL, 3 mark character */
	int ord[LL + 12], want[LL + 12], n, i, j, len, seen = 0, dir, marks = 0;
	char *p;
	dir_init();
#ifdef NESTED
	/* a nested mark \*[..] inside a right-to-left line: the whole mark is one left-to-right unit, so its characters
	 * appear reversed as a block (the line itself runs right to left) and nothing inside is reversed a second time */
	{
		int pre = symx_conc(symx_u8("pre") & 1), post = symx_conc(symx_u8("post") & 1), k, p, q;
		len = 0;
		n = 0;
		if (symx_conc(symx_u8("ltr") & 1)) {
			/* the same mark in a left-to-right line, followed by a right-to-left word: the mark keeps its place,
			 * the word is reversed once, in place, and nothing else moves */
			int a;
			len += sl_copy(s + len, "\\*[");
			n += 3;
			for (k = 0; k < 3; k++) {
				unsigned char c = symx_u8("in");
				symx_assume(c == 'a' || c == 'b' || c == ' ' || c == '1');
				symx_assume(k != 0 || c != ' ');
				s[len++] = c;
				n++;
			}
			len += sl_copy(s + len, "] ");
			n += 2;
			a = n;
			len += sl_copy(s + len, "\xd8\xa8\xd8\xa7\xd8\xa8");
			n += 3;
			if (post) { len += sl_copy(s + len, " x"); n += 2; }
			s[len] = '\n';
			s[len + 1] = 0;
			n++;
			xtd = 2;
			for (i = 0; i < n; i++)
				ord[i] = i;
			dir_reorder(s, ord);
			symx_observe_mem("s", s, len + 2);
			for (i = 0; i < n; i++)
				symx_assert(ord[i] == (i >= a && i < a + 3 ? a + a + 2 - i : i), "a right-to-left word after a nested mark is reversed once, in place");
			symx_reach("nested-ltr");
			symx_reach("nested");
			symx_reach("end");
			(void) pre; (void) p; (void) q;
			return;
		}
		if (pre) { len += sl_copy(s + len, "\xd8\xa8"); n++; }
		p = n;
		len += sl_copy(s + len, "\\*[");
		n += 3;
		for (k = 0; k < 3; k++) {
			unsigned char c = symx_u8("in");
			symx_assume(c == 'a' || c == 'b' || c == ' ' || c == '1');
			symx_assume(k != 0 || c != ' ');
			s[len++] = c;
			n++;
		}
		s[len++] = ']';
		n++;
		q = n;
		if (post) { len += sl_copy(s + len, "\xd8\xa7"); n++; }
		s[len] = '\n';
		s[len + 1] = 0;
		n++;
		xtd = -2;
		for (i = 0; i < n; i++)
			ord[i] = i;
		dir_reorder(s, ord);
		symx_observe_mem("s", s, len + 2);
		for (i = 0; i < n; i++)
			symx_assert(ord[i] == (i >= p && i < q ? p + q - 1 - i : i), "a nested mark in a right-to-left line is reversed once, as one block");
		symx_reach("nested");
		symx_reach("end");
		return;
	}
#endif
#ifdef MARKS
	len = slots_text(s, "ln", LL, SL_ASCII | SL_AR1 | SL_AR2, "a1 $\\{}[]*", &n);
#else
	len = slots_text(s, "ln", LL, SL_ASCII | SL_AR1 | SL_AR2 | SL_ZWNJ, "ab1 -", &n);
#endif
	s[len] = '\n';
	s[len + 1] = 0;
	for (i = 0, p = s; i < n; i++) {
		unsigned char c = *p;
		cls[i] = c >= 0x80 ? 2 : ((c >= 'a' && c <= 'z') || (c >= '0' && c <= '9')) ? 0 : (c == ' ' || c == '-') ? 1 : 3;
		marks |= cls[i] == 3;
		p += c < 0x80 ? 1 : c < 0xe0 ? 2 : 3;
	}
	n++;
	xtd = symx_conc(symx_u8("td") % 5) - 2;
	symx_observe_mem("s", s, len + 2);
	for (i = 0; i < n; i++)
		ord[i] = i;
	dir_reorder(s, ord);
	/* a permutation, the newline last */
	for (i = 0; i < n; i++) {
		symx_assert(ord[i] >= 0 && ord[i] < n, "visual indices are inside the line");
		if (ord[i] >= 0 && ord[i] < n) {
			symx_assert(!((seen >> ord[i]) & 1), "no visual index is used twice (a permutation)");
			seen |= 1 << ord[i];
		}
	}
	symx_assert(ord[n - 1] == n - 1, "the line terminator stays last");
	symx_observe_mem("ord", ord, n * sizeof(int));
	if (marks) {
		symx_reach("marks");
		symx_reach("end");
		return;
	}
	/* base direction: the option, else the first character */
	dir = xtd > 1 ? 1 : xtd < -1 ? -1 : (n > 1 && cls[0] == 2) ? -1 : (n > 1 && cls[0] == 0) ? 1 : xtd < 0 ? -1 : 1;
	if (xtd == 0 && !(n > 1 && cls[0] == 2))
		dir = 1;
	for (i = 0; i < n; i++)
		want[i] = i;
	for (i = 0; i < n - 1; ) {
		int strong = dir > 0 ? 2 : 0;	/* the class whose runs are reversed */
		if (cls[i] != strong) {
			i++;
			continue;
		}
		/* the longest run from i that ends in a strong character and contains no character of the line's own direction */
		for (j = i, len = i; j < n - 1; j++) {
			if (dir > 0 ? cls[j] == 0 : cls[j] == 2)
				break;
			if (cls[j] == strong)
				len = j;
		}
		if (len > i) {
			int a = i, b = len;
			while (a < b) {
				int t = want[a];
				want[a] = want[b];
				want[b] = t;
				a++;
				b--;
			}
			symx_reach("reversed");
		}
		i = len + 1;
	}
	for (i = 0; i < n; i++)
		symx_assert(ord[i] == want[i], "opposite-direction runs are reversed in place, everything else keeps its index");
	symx_reach("end");
}
