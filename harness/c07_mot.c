/*
 * C07: vi cursor motions land where the reference semantics say.
 * The real main() in vi mode.  Buffer: two lines of <= LL symbolic characters (word character, punctuation,
 * blank, TAB, 2-byte, double-width) and a fixed third line; the start position (row, character) is
 * symbolic and reached with <row>G<column>|; then one motion from a menu with an optional count (or a
 * short sequence: f/t followed by ; or , and | followed by j k for the remembered column); then the marker
 * X is typed at the cursor and the file is written.
 * Oracle: reference semantics over code points and display columns written in this file (h l 0 ^ $ | j k G
 * + - _ f F t T ; , and w b e W B E; word motions are asserted when the target is on the same line or at the
 * start of a following non-blank or empty line).  For every motion, including % { } H M L: the text is
 * unchanged and the cursor is on an existing character (never on the terminator of a non-empty line).
 */
#include "vih.h"
#include "slots.h"
#ifndef LL
#define LL 3
#endif
#define NLN 3
#ifndef NCNT
#define NCNT 2
#endif
struct ch { int kind, wid, len; char b[5]; };	/* kind: 0 blank, 1 word, 2 punctuation; wid 0 = tab */
#define WROWS 4	/* env_lines 5: four text rows and the status row */
static struct ch L[NLN][16];
static int nch[NLN];
static char text[NLN][64];

static int colof(int r, int o)
{
	int c = 0, i;
	for (i = 0; i < o; i++)
		c += L[r][i].wid ? L[r][i].wid : 8 - (c & 7);
	return c;
}
static int offat(int r, int col)	/* the character covering display column col; the last one beyond the end */
{
	int c = 0, i;
	for (i = 0; i < nch[r]; i++) {
		int w = L[r][i].wid ? L[r][i].wid : 8 - (c & 7);
		if (col < c + w)
			return i;
		c += w;
	}
	return nch[r] ? nch[r] - 1 : 0;
}
static int indent(int r)
{
	int i = 0;
	while (i < nch[r] && L[r][i].kind == 0)
		i++;
	return i < nch[r] ? i : (nch[r] ? nch[r] - 1 : 0);
}
static int clampo(int r, int o) { return o < 0 ? 0 : o >= nch[r] ? (nch[r] ? nch[r] - 1 : 0) : o; }
static int eqch(struct ch *a, const char *c) { return !strcmp(a->b, c); }
/* f F t T within the line; returns 0 and moves, or 1 */
static int findc(int r, int *o, int cmd, const char *c, int cnt)
{
	int dir = (cmd == 'f' || cmd == 't') ? 1 : -1, i = *o, n = cnt;
	while (n > 0) {
		i += dir;
		if (i < 0 || i >= nch[r])
			return 1;
		if (eqch(&L[r][i], c))
			n--;
	}
	if (cmd == 't' || cmd == 'T')
		i -= dir;
	*o = i;
	return 0;
}
static int allblank(int r) { int i; for (i = 0; i < nch[r]; i++) if (L[r][i].kind) return 0; return nch[r] > 0; }
/* kind for word (big = 0) or bigword (big = 1) motions */
static int kd(int r, int o, int big) { int k = L[r][o].kind; return big && k ? 1 : k; }
static int nonext;	/* a w/W that found no further word (as an operator's motion it then takes the rest of the line) */
/* word motions; returns 0 if the reference defines the target (stored in *r,*o), 1 if this case is not asserted */
static int wordmot(int cmd, int *r, int *o)
{
	int big = cmd == 'W' || cmd == 'B' || cmd == 'E', i = *o, n = nch[*r], k;
	if (cmd == 'w' || cmd == 'W') {
		if (n && (k = kd(*r, i, big)))
			while (i < n && kd(*r, i, big) == k)
				i++;
		while (i < n && kd(*r, i, big) == 0)
			i++;
		if (i < n) { *o = i; return 0; }
		if (*r + 1 >= NLN) { *o = n ? n - 1 : 0; nonext = 1; return 0; }	/* no next word: the last character */
		if (allblank(*r + 1)) return 1;
		++*r;
		*o = nch[*r] ? indent(*r) : 0;
		return 0;
	}
	if (cmd == 'e' || cmd == 'E') {
		i++;
		while (i < n && kd(*r, i, big) == 0)
			i++;
		if (i < n) {
			k = kd(*r, i, big);
			while (i + 1 < n && kd(*r, i + 1, big) == k)
				i++;
			*o = i;
			return 0;
		}
		if (*r + 1 >= NLN) { *o = n ? n - 1 : 0; return 0; }
		if (!nch[*r + 1] || allblank(*r + 1)) return 1;
		++*r;
		i = indent(*r);
		k = kd(*r, i, big);
		while (i + 1 < nch[*r] && kd(*r, i + 1, big) == k)
			i++;
		*o = i;
		return 0;
	}
	/* b B */
	i--;
	while (i >= 0 && kd(*r, i, big) == 0)
		i--;
	if (i >= 0) {
		k = kd(*r, i, big);
		while (i - 1 >= 0 && kd(*r, i - 1, big) == k)
			i--;
		*o = i;
		return 0;
	}
	if (*r == 0) { *o = 0; return 0; }
	if (allblank(*r - 1)) return 1;
	--*r;
	if (!nch[*r]) { *o = 0; return 0; }
	i = nch[*r] - 1;
	while (i >= 0 && kd(*r, i, big) == 0)
		i--;
	k = kd(*r, i, big);
	while (i - 1 >= 0 && kd(*r, i - 1, big) == k)
		i--;
	*o = i;
	return 0;
}

static void setline(int r, const char *t)
{
	int n = 0;
	while (*t) {
		struct ch *c = &L[r][n++];
		unsigned char b = *t;
		c->len = b < 0x80 ? 1 : b < 0xe0 ? 2 : 3;
		memcpy(c->b, t, c->len);
		c->b[c->len] = 0;
		c->wid = b == '\t' ? 0 : b == 0xe4 ? 2 : 1;
		c->kind = b == ' ' || b == '\t' ? 0 : (b >= 0x80 || (b >= 'a' && b <= 'z')) ? 1 : 2;
		t += c->len;
	}
	nch[r] = n;
}

void harness(void)
{
	static char file[160], keys[64];
	int r, i, n, r0, o0, cnt, m, flen = 0, rr, ro, asserted = 1, kn = 0;
	char cbuf[8];
	/* the buffer */
#ifdef SYMTEXT
	for (r = 0; r < 2; r++) {
		n = symx_u8("len");
		symx_assume(n <= LL);
		n = symx_conc(n);
		nch[r] = n;
		for (i = 0; i < n; i++) {
			struct ch *c = &L[r][i];
			c->len = slot_gen(c->b, "ch", SL_ASCII | SL_TAB | SL_2B | SL_3B, "a. ");
			c->b[c->len] = 0;
			c->wid = c->b[0] == '\t' ? 0 : (unsigned char) c->b[0] == 0xe4 ? 2 : 1;
			c->kind = c->b[0] == ' ' || c->b[0] == '\t' ? 0 : c->b[0] == '.' ? 2 : 1;
		}
	}
	setline(2, "a (a)");
#else
	{
		/* three fixed buffers covering words, punctuation, blanks, tabs, 2-byte and double-width characters, an empty line */
		static const char *bufs[4][NLN] = {
			{"ab.c  d", "", "\ta (a) \xc3\xa9\xe4\xb8\xad" "b"},
			{"\xe4\xb8\xad\t\xc3\xa8\xc3\xa9. a\xc3\xa8", " x.", "a"},	/* è next to é: same lead byte, another character */
			{"a", "(a.b) [\xc3\xa9] a", ""},
			{"\xd8\xa7\xd8\xa8\xd8\xac\xd8\xaf", "ab", "\xd8\xa8"},	/* right-to-left lines (only with BUFSEL 3: h and l follow the display) */
		};
		int b = symx_u8("buffer");
#ifdef BUFSEL
		symx_assume(b < 4);
#else
		symx_assume(b < 3);
#endif
#ifdef BUFSEL
		symx_assume(b == BUFSEL);
#endif
		b = symx_conc(b);
		for (r = 0; r < NLN; r++)
			setline(r, bufs[b][r]);
	}
#endif
	for (r = 0; r < NLN; r++) {
		n = 0;
		for (i = 0; i < nch[r]; i++) {
			memcpy(text[r] + n, L[r][i].b, L[r][i].len);
			n += L[r][i].len;
		}
		text[r][n] = 0;
		memcpy(file + flen, text[r], n);
		flen += n;
		file[flen++] = '\n';
	}
	env_mkfile("f", file, flen, 5);
	/* start position */
	r0 = symx_u8("row");
	symx_assume(r0 < NLN);
	r0 = symx_conc(r0);
	o0 = symx_u8("off");
	symx_assume(o0 < (nch[r0] ? nch[r0] : 1));
	o0 = symx_conc(o0);
	kn += sprintf(keys + kn, "%dG%d|", r0 + 1, colof(r0, o0) + 1);
	/* the motion */
	cnt = symx_conc(symx_u8("count") % NCNT);	/* 0: none, else 2, 3 */
	m = symx_u8("motion");
	symx_assume(m < NMOT);
#ifdef MOTMASK
	symx_assume((MOTMASK >> m) & 1);
#endif
	m = symx_conc(m);
	rr = r0;
	ro = o0;
	{
		static const char *mots[] = {"h", "l", "0", "^", "$", "|", "j", "k", "G", "+", "-", "_", "fa", "Fa", "ta", "Ta", "f.", "t.",
			"w", "b", "e", "W", "B", "E", "fa;", "ta;", "fa,", "Fa;", "Ta,", "f\xc3\xa9", "%", "{", "}", "H", "M", "L", "4|j", "9|k", "2|jk"};
		int c = cnt ? cnt + 1 : 1, col;
		if (cnt && (m >= 24 || m == 2))
			cnt = 0, c = 1;		/* sequences and 0 are run without a count */
#ifdef OPER
		symx_assume(m <= 23 || m == 29);	/* single motions only */
		keys[kn++] = 'd';
#endif
		if (cnt)
			keys[kn++] = '1' + cnt;
		kn += sprintf(keys + kn, "%s", mots[m]);
		col = colof(r0, o0);
		switch (m) {
		/* h and l go to the character displayed to the left / right: in a line whose base direction is right to left
		 * (it starts with an Arabic letter) that is the next / previous character of the text */
		case 0: if ((unsigned char) text[rr][0] == 0xd8) ro = clampo(rr, ro + c); else ro = ro - c < 0 ? 0 : ro - c; break;
		case 1: if ((unsigned char) text[rr][0] == 0xd8) ro = ro - c < 0 ? 0 : ro - c; else ro = clampo(rr, ro + c); break;
		case 2: ro = 0; break;
		case 3: ro = indent(rr); break;
		case 4: if (cnt) asserted = 0; ro = nch[rr] ? nch[rr] - 1 : 0; break;
		case 5:
#ifdef OPER
			/* a column beyond the last character: as a motion it ends on the last character; what an operator takes
			 * then (up to it, or through the end of the line as neatvi does) is left open by the reference */
			if (nch[rr] && c - 1 > colof(rr, nch[rr] - 1) + (L[rr][nch[rr] - 1].wid ? L[rr][nch[rr] - 1].wid : 8 - (colof(rr, nch[rr] - 1) & 7)) - 1)
				asserted = 0;
#endif
			ro = offat(rr, c - 1);
			break;
		case 6: rr = rr + c >= NLN ? NLN - 1 : rr + c; ro = offat(rr, col); break;
		case 7: rr = rr - c < 0 ? 0 : rr - c; ro = offat(rr, col); break;
		case 8: rr = cnt ? (c - 1 >= NLN ? NLN - 1 : c - 1) : NLN - 1; ro = indent(rr); break;
		case 9: rr = rr + c >= NLN ? NLN - 1 : rr + c; ro = indent(rr); break;
		case 10: rr = rr - c < 0 ? 0 : rr - c; ro = indent(rr); break;
		case 11: rr = rr + c - 1 >= NLN ? NLN - 1 : rr + c - 1; ro = indent(rr); break;
		case 12: findc(rr, &ro, 'f', "a", c); break;
		case 13: findc(rr, &ro, 'F', "a", c); break;
		case 14: findc(rr, &ro, 't', "a", c); break;
		case 15: findc(rr, &ro, 'T', "a", c); break;
		case 16: findc(rr, &ro, 'f', ".", c); break;
		case 17: findc(rr, &ro, 't', ".", c); break;
		case 18: case 19: case 20: case 21: case 22: case 23:
			for (i = 0; i < c && asserted; i++)
				if (wordmot("wbeWBE"[m - 18], &rr, &ro))
					asserted = 0;
			break;
		case 24: findc(rr, &ro, 'f', "a", 1); findc(rr, &ro, 'f', "a", 1); break;	/* the target is remembered even if the first search fails */
		case 25: findc(rr, &ro, 't', "a", 1); findc(rr, &ro, 't', "a", 1); break;
		case 26: findc(rr, &ro, 'f', "a", 1); findc(rr, &ro, 'F', "a", 1); break;
		case 27: findc(rr, &ro, 'F', "a", 1); findc(rr, &ro, 'F', "a", 1); break;
		case 28: findc(rr, &ro, 'T', "a", 1); findc(rr, &ro, 't', "a", 1); break;
		case 29: findc(rr, &ro, 'f', "\xc3\xa9", c); break;
		case 30:
			/* %: with a count, the line at that percentage of the buffer (a line motion); without, the bracket matching the
			 * first bracket at or after the cursor on its line, nesting counted for that kind of bracket only, across lines;
			 * no bracket or no partner: the motion fails and the cursor stays */
			if (cnt) {
				rr = (NLN - 1) * c / 100;
				ro = indent(rr);
			} else {
				static const char *pr = "()[]{}";
				int o = ro, k = -1, dep = 1, r2, o2, fwd;
				for (; o < nch[rr] && k < 0; o++)
					if (L[rr][o].len == 1 && strchr(pr, L[rr][o].b[0]))
						k = strchr(pr, L[rr][o].b[0]) - pr;
				if (k < 0)
					break;
				o--;
				fwd = !(k & 1);
				r2 = rr;
				o2 = o;
				while (dep) {
					o2 += fwd ? 1 : -1;
					while (r2 >= 0 && r2 < NLN && (o2 < 0 || o2 >= nch[r2])) {
						r2 += fwd ? 1 : -1;
						if (r2 >= 0 && r2 < NLN)
							o2 = fwd ? 0 : nch[r2] - 1;
					}
					if (r2 < 0 || r2 >= NLN)
						break;
					if (L[r2][o2].len == 1 && L[r2][o2].b[0] == pr[k ^ 1])
						dep--;
					else if (L[r2][o2].len == 1 && L[r2][o2].b[0] == pr[k])
						dep++;
				}
				if (!dep)
					rr = r2, ro = o2;
			}
			break;
		case 31: case 32:
			/* { and }: over the empty lines under the cursor, then over the non-empty ones, to the empty line that bounds the
			 * paragraph (or the first / last line of the buffer), first character */
			for (i = 0; i < c; i++) {
				int d = m == 31 ? -1 : 1;
				while (rr >= 0 && rr < NLN && !nch[rr])
					rr += d;
				while (rr >= 0 && rr < NLN && nch[rr])
					rr += d;
				rr = rr < 0 ? 0 : rr >= NLN ? NLN - 1 : rr;
			}
			ro = 0;
			break;
		/* H M L: the count-th row from the top / the middle row / the count-th row from the bottom of the window
		 * (WROWS text rows, showing the buffer from its first line), never beyond the last line; first non-blank */
		case 33: rr = c - 1 >= NLN ? NLN - 1 : c - 1; ro = indent(rr); break;
		case 34: rr = WROWS / 2 >= NLN ? NLN - 1 : WROWS / 2; ro = indent(rr); break;
		case 35: rr = WROWS - c >= NLN ? NLN - 1 : WROWS - c < 0 ? 0 : WROWS - c; ro = indent(rr); break;
		case 36: ro = offat(rr, 3); rr = rr + 1 >= NLN ? NLN - 1 : rr + 1; ro = offat(rr, 3); break;
		case 37: rr = rr - 1 < 0 ? 0 : rr - 1; ro = offat(rr, 8); break;
		case 38: { int r1 = rr + 1 >= NLN ? NLN - 1 : rr + 1; rr = r1 - 1 < 0 ? 0 : r1 - 1; ro = offat(rr, 1); } break;
		default: asserted = 0;
		}
	}
#ifdef OPER
	kn += sprintf(keys + kn, "\033:w\n:q\n");
#else
	kn += sprintf(keys + kn, "iX\033:w\n:q\n");
#endif
	vih_keys(keys, kn);
	symx_observe_mem("keys", keys, kn);
	symx_observe_mem("file", file, flen);
	env_lines = "5";
	env_columns = "30";
#ifdef ORDERON
	env_exinit = "set nohl | set noru";	/* order stays on: lines with multi-byte characters take the reordering path */
#else
	env_exinit = "set nohl | set noru | set noorder | set noshape";
#endif
	vih_run_vi("f");
#ifdef OPER
	/* C08-H2: the region of d<motion> is the span between the cursor and the reference target:
	 * line-wise for j k G + - _, inclusive for f t e E $, exclusive for the others */
	{
		static char want[200];
		char *got = vih_file("f");
		int glen = vih_filelen("f"), wl = 0, lnwise, incl, a, b2, same;
		lnwise = m >= 6 && m <= 11;
		incl = m == 4 || m == 12 || m == 14 || m == 16 || m == 17 || m == 20 || m == 23 || m == 29;
		same = rr == r0 && ro == o0;
		/* not asserted: word motions that leave the line (dw at the end of a line has rules of its own), motions
		 * that do not move (dl on the last character, d$ on an empty line), and what the motion reference leaves open */
		if (!asserted || nonext || (!lnwise && rr != r0 && !((m == 20 || m == 23) && rr > r0)) || (same && !lnwise && !(incl && nch[r0])))
			asserted = 0;
		/* a search that fails leaves everything alone */
		if ((m >= 12 && m <= 17) || m == 29) {
			int t = o0;
			static const char *tg[] = {"a", "a", "a", "a", ".", ".", "\xc3\xa9"};
			if (findc(r0, &t, "fFtTftf"[m == 29 ? 6 : m - 12], tg[m == 29 ? 6 : m - 12], cnt ? cnt + 1 : 1)) {
				symx_reach("failed-motion");
				symx_assert(glen == flen && !memcmp(got, file, flen), "an operator whose motion fails changes nothing");
				symx_reach("end");
				return;
			}
		}
		if (asserted) {
			symx_reach("asserted");
			if (lnwise) {
				int lo = rr < r0 ? rr : r0, hi = rr < r0 ? r0 : rr;
				for (r = 0; r < NLN; r++)
					if (r < lo || r > hi) {
						wl += sprintf(want + wl, "%s\n", text[r]);
					}
			} else if (rr > r0) {
				/* e / E onto a following line: from the cursor through the target character */
				for (r = 0; r < r0; r++)
					wl += sprintf(want + wl, "%s\n", text[r]);
				for (i = 0; i < o0; i++)
					wl += sprintf(want + wl, "%s", L[r0][i].b);
				for (i = ro + 1; i < nch[rr]; i++)
					wl += sprintf(want + wl, "%s", L[rr][i].b);
				want[wl++] = '\n';
				for (r = rr + 1; r < NLN; r++)
					wl += sprintf(want + wl, "%s\n", text[r]);
			} else {
				a = ro < o0 ? ro : o0;
				b2 = ro < o0 ? o0 : ro;		/* exclusive end */
				if (incl)
					b2++;
				for (r = 0; r < NLN; r++) {
					if (r != r0) {
						wl += sprintf(want + wl, "%s\n", text[r]);
						continue;
					}
					for (i = 0; i < nch[r]; i++)
						if (i < a || i >= b2)
							wl += sprintf(want + wl, "%s", L[r][i].b);
					want[wl++] = '\n';
				}
			}
			symx_observe_mem("got", got, glen);
			symx_assert(glen == wl && !memcmp(got, want, wl), "d<motion> removes exactly the span between the cursor and the motion target");
		}
		symx_reach("end");
		return;
	}
#endif
	/* where is the marker? */
	{
		char *got = vih_file("f");
		int glen = vih_filelen("f"), gr = 0, go = 0, p, x = -1;
		symx_assert(glen == flen + 1, "a motion never changes the text (only the marker was added)");
		for (p = 0; p < glen; p++)
			if (got[p] == 'X')
				x = p;
		symx_assert(x >= 0, "the marker is in the file");
		if (x < 0 || glen != flen + 1)
			return;
		symx_assert(!memcmp(got, file, x) && !memcmp(got + x + 1, file + x, flen - x), "a motion never changes the text");
		for (p = 0; p < x; p++) {
			if (got[p] == '\n') { gr++; go = 0; }
			else if (((unsigned char) got[p] & 0xc0) != 0x80) go++;
		}
		symx_observe("row", gr);
		symx_observe("off", go);
		symx_assert(gr < NLN && (go < nch[gr] || (nch[gr] == 0 && go == 0)), "the cursor is on an existing character, never on the terminator of a non-empty line");
		if (asserted) {
			symx_reach("asserted");
			symx_assert(gr == rr && go == ro, "the motion lands where the reference semantics say");
		}
	}
	(void) cbuf;
	symx_reach("end");
}
