/*
 * C10: the pattern-set matcher (rset.c over regex.c) against the reference matcher of ref_re.h.
 * A template fixes the shape of the pattern; the placeholder characters x y z w, the line
 * (LL character slots, newline-terminated) and the flags icase / notbol / noteol are symbolic.
 * Asserted separately: found <=> a match exists (completeness only when the recursion limit was not
 * reached); the start is the leftmost; the reported span and group spans belong to a real parse
 * (soundness); they are those of the first parse in priority order (greedy, left-biased).
 */
#include <stdlib.h>
#include "vi.h"
#include "slots.h"
#include "ref_re.h"
#ifndef LL
#define LL 3
#endif
#ifndef TSET
#define TSET 0
#endif
#ifdef MB	/* characters of every encoded length and with every kind of lead byte: U+00E9 (c3), U+0628 (d8), U+0434 (d0), U+4E2D (e4), U+1F600 (f0) */
#define PHCLS (SL_ASCII | SL_2B | SL_AR1 | SL_3B)
#define PHSET "a"
#define LNCLS (SL_ASCII | SL_2B | SL_AR1 | SL_3B | SL_4B | SL_CYR)
#define LNSET "a1"
#elif defined(WIDE)
#define PHCLS (SL_ASCII | SL_2B | SL_2BU)
#define PHSET "abA1_"
#define LNCLS (SL_ASCII | SL_2B | SL_2BU)
#define LNSET "abA1_ "
#else
#define PHCLS (SL_ASCII | SL_2B)
#define PHSET "aA1"
#define LNCLS (SL_ASCII | SL_2B)
#define LNSET "aA1 "
#endif
static const char *T0[] = {	/* literals, any, anchors, word boundaries */
	"x", "xy", "x.y", ".x", "^x", "x$", "^x$", "^", "$", "\\<x", "x\\>", "\\<xy\\>", "x\\>y", ".\\<x", "^.x", "x.$", NULL};
static const char *T1[] = {	/* brackets */
	"[xy]", "[^x]", "[x-y]z", "[^x-y]", "x[[:digit:]]", "[[:alpha:]]x", "[^[:space:]x]", "[xy][^z]", "[]x]", "[^]x]y", "[x-]",
	"[^](]x", "[^][](x)", "[(]x(y)", "[^[:digit:]](x)", "[x\\](y)", NULL};
static const char *T2[] = {	/* quantifiers */
	"x*", "x*y", "x+", "x+y", "x?y", "xy?", "x{2}", "x{1,2}y", "x{2,}", "x{0,1}y", ".*x", ".+x", "x.*y", "[xy]*z", "[^x]+y", "x*x", "x+x", ".*", "x{0}y", NULL};
static const char *T3[] = {	/* groups and alternation */
	"(x)", "(x)(y)", "(x|y)", "x|y", "x|xy", "xy|x", "(x|xy)z", "(xy|x)y", "(x)|(y)", "(x|y)z", "x(y|z)", "(x(y))", "((x)y)", "(x)?y", "(x|y)?z",
	"(^x|y)", "(x$|y)", "()x", "(x|y|z)", NULL};
static const char *T4[] = {	/* groups under repetition, nesting */
	"(x)*", "(x)*y", "(x|y)*", "(x|y)*z", "(xy)*", "(xy)+x", "(x|y){2}", "(x){1,2}y", "((x)|y)*", "(x(y)?)*", "(x*)y", "(x*)(x*)", "(x+)(x+)",
	"(x|xy)(y|z)", "(x)*(x)", "(.)(.)", "(.*)(x)", "(x|y)+\\>", "\\<(x|y)+", "(x?)(y?)z", NULL};
static const char *T5[] = {	/* nullable loop bodies: soundness and leftmost only */
	"(x*)*", "(x*)*y", "(x?)*y",
#ifdef WIDE
	"(x|y*)*z", "(x*y*)*z",
#endif
	NULL};
static const char *T6[] = {	/* open-ended bounds with a minimum above one: the back edge of the loop (lines of 3 characters even in the quick tier) */
	"x{2,}", "^x{2,}$", "x{2,}y", "(x|y){2,}", "[xy]{2,}z", ".{2,}x", "(x){2,}", "x{2,}x", NULL};
static const char **TS[] = {T0, T1, T2, T3, T4, T5, T6};

void harness(void)
{
	char pat[64], line[LL * 4 + 2];
	char *pp = pat;
	int g[2 * R_MAXG], caps[R_MAXG][2];
	int t, nt, i, len, cf, flg, r, rso = -1, reo = -1, rfound, ng, deep, same;
	struct rset *rs;
	const char **tab = TS[TSET];
	for (nt = 0; tab[nt]; nt++)
		;
	t = symx_u8("tmpl");
	symx_assume(t < nt);
	t = symx_conc(t);
	/* placeholder characters: only as many as the template uses */
	for (i = 0; i < 4; i++) {
		char b[8];
		int l;
		if (!strchr(tab[t], "xyzw"[i])) {
			R_ph[i] = 'q';
			continue;
		}
		l = slot_gen(b, "ph", PHCLS, PHSET);
		b[l] = 0;
		ref_setline(b, 0, 0, 0);
		R_ph[i] = m_cp(0);
	}
	symx_assert(ref_parse(tab[t]) == 0, "template parses");
	ref_pattern(tab[t], pat);
	len = slots_text(line, "ln", LL, LNCLS, LNSET, NULL);
	line[len] = '\n';
	line[len + 1] = 0;
	cf = symx_u8("icase") & 1 ? RE_ICASE : 0;
	flg = (symx_u8("notbol") & 1 ? RE_NOTBOL : 0) | (symx_u8("noteol") & 1 ? RE_NOTEOL : 0);
	symx_observe_mem("pat", pat, strlen(pat) + 1);
	symx_observe_mem("line", line, len + 2);
	rs = rset_make(1, &pp, cf);
	symx_assert(rs != NULL, "pattern compiles");
	if (!rs)
		return;
	ng = R_ngrp < R_MAXG - 1 ? R_ngrp : R_MAXG - 1;
	for (i = 0; i < 2 * R_MAXG; i++)
		g[i] = -7;
	symx_reset_depth("re_rec");
	r = rset_find(rs, line, 1 + ng, g, flg);
	deep = symx_max_depth("re_rec") >= 256;
	symx_observe("r", r);
	/* the reference */
	ref_setline(line, !!cf, !!(flg & RE_NOTBOL), !!(flg & RE_NOTEOL));
	rfound = ref_search(&rso, &reo);
	symx_assert(M_fuel > 0, "reference walker finished");
	for (i = 0; i <= ng; i++) {
		caps[i][0] = M_cap[i][0];
		caps[i][1] = M_cap[i][1];
	}
	if (r < 0) {
		symx_reach("notfound");
		if (!deep)
			symx_assert(!rfound, "no existing match is missed");
	} else {
		int ecaps[R_MAXG][2];
		symx_reach("found");
		symx_observe("so", g[0]);
		symx_observe("eo", g[1]);
		symx_assert(r == 0, "the index is that of the only pattern");
		symx_assert(0 <= g[0] && g[0] <= g[1] && g[1] <= len + 1, "span inside the line");
		symx_assert(rfound, "a reported match is genuine (some match exists)");
		if (rfound) {
			if (!deep)
				symx_assert(g[0] == rso, "the match starts at the leftmost position where any match exists");
			else
				symx_assert(g[0] >= rso, "the match does not start before the leftmost possible position");
			same = g[0] == rso && g[1] == reo;
			for (i = 1; i <= ng; i++) {
				ecaps[i][0] = g[2 * i];
				ecaps[i][1] = g[2 * i + 1];
				same = same && ecaps[i][0] == caps[i][0] && ecaps[i][1] == caps[i][1];
				/* nested inside the whole match */
				symx_assert((ecaps[i][0] == -1 && ecaps[i][1] == -1) ||
					(g[0] <= ecaps[i][0] && ecaps[i][0] <= ecaps[i][1] && ecaps[i][1] <= g[1]), "group span unset or inside the match");
			}
			if (!same) {
				symx_assert(ref_exists(g[0], g[1], ng, ecaps), "the reported span and group spans are those of a real parse");
				if (!R_nullable_loop && !deep && g[0] == rso)
					symx_assert(0, "greedy / left-biased: the reported parse is the first in priority order");
			} else {
				symx_reach("agree");
			}
		}
	}
	rset_free(rs);
	symx_reach("end");
}
