/*
 * C04 (long histories): more than 128 logged splices (the history array grows at 128, 256, ...), as one
 * compound command (%s over NL lines) and as NL single commands, then undo all the way down and redo all
 * the way up: every intermediate text must be the one recorded on the way.
 */
#include "exh.h"
#ifndef NL
#define NL 140
#endif
static char text[NL * 4 + 1], cur[NL * 4 + 16];
static void expect(int changed_upto, const char *label)
{
	/* lines 1..changed_upto read "bN", the others "aN" */
	int i, n = 0;
	char *got;
	for (i = 0; i < NL; i++) {
		cur[n++] = i < changed_upto ? 'b' : 'a';
		cur[n++] = '0' + i % 10;
		cur[n++] = '\n';
	}
	cur[n] = 0;
	got = exh_text();
	symx_assert(!strcmp(got, cur), label);
	free(got);
}
void harness(void)
{
	char *files[] = {"f", NULL};
	char cmd[32];
	int i, n = 0, mode;
	env_mkfile("f", "x\n", 2, 5);
	exh_start(files);
	for (i = 0; i < NL; i++) {
		text[n++] = 'a';
		text[n++] = '0' + i % 10;
		text[n++] = '\n';
	}
	text[n] = 0;
	lbuf_edit(xb, text, 0, lbuf_len(xb));
	lbuf_saved(xb, 1);
	mode = symx_conc(symx_u8("mode") & 1);
	if (mode == 0) {
		/* one command, NL splices */
		exh_cmd("%s/a/b/");
		expect(NL, "the substitution changed every line");
		symx_assert(exh_cmd("u") == 0, "undo succeeds");
		expect(0, "one undo takes back the whole command, however many splices it logged");
		symx_assert(exh_cmd("u") != 0, "nothing more to undo");
		symx_assert(exh_cmd("redo") == 0, "redo succeeds");
		expect(NL, "redo reinstates every line");
		symx_reach("compound");
	} else {
		/* NL commands, one splice each */
		for (i = 0; i < NL; i++) {
			snprintf(cmd, sizeof(cmd), "%ds/a/b/", i + 1);
			exh_cmd(cmd);
		}
		expect(NL, "all lines changed");
		for (i = NL; i > 0; i--) {
			symx_assert(exh_cmd("u") == 0, "undo succeeds");
			if (i % 16 == 1 || i == 129 || i == 128 || i == 127)
				expect(i - 1, "each undo restores the text before the command, also below the point where the history array grew");
		}
		symx_assert(exh_cmd("u") != 0, "undo at the start of history fails");
		for (i = 0; i < NL; i++)
			symx_assert(exh_cmd("redo") == 0, "redo succeeds");
		expect(NL, "redo all the way up gives the last text");
		symx_reach("single");
	}
	symx_reach("end");
}
