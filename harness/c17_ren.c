/*
 * C17-H1: screen-column layout of a line.
 * Line of <= LL character slots over {printable ASCII (symbolic), TAB, double-width U+4E2D, zero-width
 * U+0301 (shown as a one-cell placeholder), ZWNJ (placeholder), Arabic BEH, 4-byte U+1F600}, plus the
 * terminating newline; options order in {0,1,2}, td in {-2..2}, lim below/above the length.
 * Laws: sorted by column the cells tile [0,total): each character starts where the previous one in
 * visual order ended, with its class width (TAB to the next multiple of 8); offset->column->offset
 * round-trips; ren_next is the visual neighbour and -1 at the ends; ren_cursor / ren_noeol stay
 * inside the line.
 */
#include <stdlib.h>
#include <string.h>
#include "vi.h"
#include "slots.h"
int xorder = 1, xlim = 256, xtd, xshape = 1, xic;
struct lbuf *ex_lbuf(void) { return NULL; }
#ifndef LL
#define LL 3
#endif
#ifndef ORDER
#define ORDER 0
#endif
#define CLS (SL_ASCII | SL_TAB | SL_3B | SL_COMB | SL_AR1 | SL_ZWNJ | SL_4B | SL_WBELL)
static int cls_width(const char *c, int col)
{
	if (c[0] == '\t')
		return 8 - (col & 7);
	if (!strncmp(c, "\xe4\xb8\xad", 3))
		return 2;
	return 1;
}
void harness(void)
{
	char s[LL * 4 + 2];
	char *chr[LL + 2];
	int n, i, k, len, *pos, total, seen = 0, col;
	dir_init();
	#ifdef RTLCTX
	/* left-to-right runs with tabs and wide characters inside a right-to-left line */
	len = slots_text(s, "ln", LL, SL_ASCII | SL_TAB | SL_3B, "a", &n);
#else
	len = slots_text(s, "ln", LL, CLS, ORDER ? "a " : NULL, &n);
#endif
	s[len] = '\n';
	s[len + 1] = 0;
	n++;		/* the newline is a character of the line */
	{
		char *p = s;
		for (i = 0; i < n; i++) {
			chr[i] = p;
			p += (unsigned char) *p < 0x80 ? 1 : (unsigned char) *p < 0xe0 ? 2 : (unsigned char) *p < 0xf0 ? 3 : 4;
		}
	}
	xorder = ORDER;
#ifdef RTLCTX
	xtd = -2;
#else
	if (ORDER) {
		xtd = symx_conc(symx_u8("td") % 5) - 2;
		xlim = symx_conc(symx_u8("lim") & 1) ? 256 : 1;
	}
#endif
	symx_observe_mem("s", s, len + 2);
	pos = ren_position(s);
	total = pos[n];
	/* tiling: walk the cells from column 0; each step finds the character that starts there */
	col = 0;
	for (k = 0; k < n; k++) {
		int found = -1;
		for (i = 0; i < n; i++)
			if (pos[i] == col && !((seen >> i) & 1) && found < 0)
				found = i;
		symx_assert(found >= 0, "every cell run starts where the previous character ended (no gap, no overlap)");
		if (found < 0)
			break;
		seen |= 1 << found;
		col += cls_width(chr[found], col);
		symx_assert(ren_cwid(chr[found], pos[found]) == cls_width(chr[found], pos[found]), "cell width is that of the character's class");
	}
	symx_assert(col == total, "the total width is the sum of the cell widths");
	symx_observe("total", total);
	/* round trip and neighbours: every character on the fast path; on the reordering path (each call runs the
	 * direction patterns again) one solver-chosen character */
	{
		int lo = 0, hi = n;
		if (len + 1 > n && xorder && n <= xlim || xorder == 2 && n <= xlim) {
			lo = symx_u8("which");
			symx_assume(lo < n);
			lo = symx_conc(lo);
			hi = lo + 1;
			symx_reach("reorder-path");
		}
	for (i = lo; i < hi; i++) {
		int right = -1, left = -1, r;
		symx_assert(ren_pos(s, i) == pos[i], "ren_pos is the column of the character");
		symx_assert(ren_off(s, pos[i]) == i, "column -> offset returns the same character");
		for (k = 0; k < n; k++) {
			if (pos[k] > pos[i] && (right < 0 || pos[k] < pos[right]))
				right = k;
			if (pos[k] < pos[i] && (left < 0 || pos[k] > pos[left]))
				left = k;
		}
		r = ren_next(s, pos[i], +1);
		if (right < 0 || chr[right][0] == '\n')
			symx_assert(r == -1, "moving right stops at the line end");
		else
			symx_assert(r == pos[right], "moving right goes to the character displayed immediately to the right");
		r = ren_next(s, pos[i], -1);
		if (left < 0 || chr[left][0] == '\n')
			symx_assert(r == -1, "moving left stops at the line end");
		else
			symx_assert(r == pos[left], "moving left goes to the character displayed immediately to the left");
		/* a column inside a wide cell or a tab belongs to that character */
		if (cls_width(chr[i], pos[i]) > 1)
			symx_assert(ren_off(s, pos[i] + 1) == i, "a column inside a wide cell maps to its character");
		symx_assert(ren_noeol(s, i) < n - (n > 1), "ren_noeol never leaves the cursor on the terminator of a non-empty line");
	}
	}
	for (i = n; i <= n + 2; i++)
		symx_assert(ren_noeol(s, i) == (n > 1 ? n - 2 : 0), "ren_noeol clamps an offset past the end to the last character before the terminator");
	free(pos);
	symx_reach("end");
}
