"""engine self-validation: tools present, libc model == libc, repository tests through the interpreted program"""
import os, sys, subprocess, shutil, json, time
from concurrent.futures import ThreadPoolExecutor

NEEDS_PROCESS = {'e16', 'v11', 'v23'}   # pipe text through rev(1): outside the environment model


def setup(C):
    ok = True
    for tool in ('clang-14', 'objcopy', 'gcc', 'cbmc', 'z3'):
        if not shutil.which(tool):
            print('missing tool', tool); ok = False
    if not os.path.exists(C.LLVM_LINK):
        print('missing llvm-link'); ok = False
    r = C.sh([C.PY, '-c', 'import z3; print(z3.get_version_string())'])
    print('python z3', r.stdout.strip())
    ok = ok and r.returncode == 0
    d = os.path.join(C.BUILD, 'setup')
    shutil.rmtree(d, ignore_errors=True)
    os.makedirs(d)
    # libc model vs libc
    names = ('strlen strchr strrchr strcmp strncmp strcpy strcat strstr isdigit islower isupper isalpha isalnum isspace isprint '
             'tolower toupper abs strtol atoi memcmp stpcpy memchr isxdigit ispunct iscntrl strspn strcspn strpbrk strncpy strncat strnlen strdup strndup '
             'memrchr isblank isgraph strtoul strcasecmp strncasecmp memccpy bcmp').split()
    C.must(['gcc', '-O1', '-fno-builtin', '-w', '-c', os.path.join(C.ENG, 'libc_model.c'), '-o', os.path.join(d, 'm.o')] +
           ['-D%s=m_%s' % (n, n) for n in names])
    C.must(['gcc', '-O1', '-fno-builtin', '-w', os.path.join(C.ENG, 'libc_cmp.c'), os.path.join(d, 'm.o'), '-o', os.path.join(d, 'cmp')])
    r = C.sh([os.path.join(d, 'cmp')], env=dict(os.environ, LC_ALL='C'))
    print(r.stdout.strip())
    ok = ok and r.returncode == 0
    rc = run(C, 'quick', quiet=True)
    shutil.rmtree(d, ignore_errors=True)
    print('setup', 'ok' if ok and rc == 0 else 'FAILED')
    return 0 if ok and rc == 0 else 1


def cbytes(b):
    return '{' + ','.join(str(x) for x in b) + (',' if b else '') + '0}'


def run(C, tier, quiet=False):
    """every test script of the repository: interpreted program == expected file == native binary"""
    t0 = time.time()
    root = os.path.join(C.BUILD, 'selftest')
    shutil.rmtree(root, ignore_errors=True)
    os.makedirs(root)
    common = C.build_ir_common(os.path.join(root, 'll'))
    tests = sorted(f for f in os.listdir(os.path.join(C.REPO, 'test')) if f.endswith('.sh'))
    # native reference binary (the Makefile's flags)
    nat = os.path.join(root, 'nat')
    os.makedirs(nat)
    objs = []
    for u in C.ALL_UNITS:
        o = os.path.join(nat, u + '.o')
        C.must(['cc', '-Wall', '-O2', '-w', '-c', os.path.join(C.REPO, u + '.c'), '-o', o], cwd=C.REPO)
        objs.append(o)
    C.must(['cc', '-o', os.path.join(nat, 'vi')] + objs)

    def one(t):
        name = t[:-3]
        d = os.path.join(root, name)
        os.makedirs(d)
        r = subprocess.run(['sh', os.path.join('test', t), '/tmp/.neatvi2'], cwd=C.REPO, stdout=subprocess.PIPE, stderr=subprocess.PIPE)
        stdin, expect = r.stdout, r.stderr
        isex = name.startswith('e')
        open(os.path.join(d, 'testdata.h'), 'w').write(
            'static const char T_STDIN[]=%s;\n#define T_STDIN_LEN %d\nstatic const char T_EXPECT[]=%s;\n#define T_EXPECT_LEN %d\n#define T_EX %d\n'
            % (cbytes(stdin), len(stdin), cbytes(expect), len(expect), 1 if isex else 0))
        h = os.path.join(d, 'harness.ll')
        C.must([C.CLANG] + C.IR_FLAGS + ['-DSYMX_IR', '-I', C.ENG, '-I', C.REPO, '-I', d, os.path.join(C.HARN, 'selftest_prog.c'), '-o', h])
        C.rename_env(h)
        linked = os.path.join(d, 'linked.ll')
        units, env, libc = common
        C.must([C.LLVM_LINK, '-S', h] + [units[u] for u in C.ALL_UNITS] + [env, libc, '-o', linked])
        out = os.path.join(d, 'res.json')
        C.sh([C.PY, os.path.join(C.ENG, 'symx.py'), linked, '--max-steps', '300000000', '--out', out])
        # native binary on the same input
        tmpf = os.path.join(d, 'nativeout')
        r2 = subprocess.run(['sh', os.path.join('test', t), tmpf], cwd=C.REPO, stdout=subprocess.PIPE, stderr=subprocess.PIPE)
        try:
            subprocess.run([os.path.join(nat, 'vi')] + (['-s', '-e'] if isex else ['-v']), input=r2.stdout, stdout=subprocess.DEVNULL,
                           stderr=subprocess.DEVNULL, timeout=20, env=dict(os.environ, EXINIT=''))
        except subprocess.TimeoutExpired:
            pass
        natout = open(tmpf, 'rb').read() if os.path.exists(tmpf) else b''
        res = {'test': name, 'native_ok': natout == r2.stderr}
        try:
            dj = json.load(open(out))
            res['engine_ok'] = (not dj['violations'] and not dj['inconclusive'] and dj['reached'].get('end', 0) == 1)
            res['steps'] = dj['steps']
            if not res['engine_ok']:
                res['why'] = [(v['kind'], v['msg']) for v in dj['violations']][:3] + [(x['kind'], x['msg'][:100]) for x in dj['inconclusive']][:2]
        except Exception as e:
            res['engine_ok'] = False
            res['why'] = 'engine failure %s' % e
        shutil.rmtree(d, ignore_errors=True)
        return res
    with ThreadPoolExecutor(C.NCPU) as ex:
        results = list(ex.map(one, tests))
    agree = [r for r in results if r['engine_ok'] and r['native_ok']]
    bad = [r for r in results if not (r['engine_ok'] and r['native_ok'])]
    unexpected = [r for r in bad if r['test'] not in NEEDS_PROCESS]
    print('selftest: %d of %d repository tests: interpreted program == native binary == expected file (%d IR steps, %.0fs)' %
          (len(agree), len(results), sum(r.get('steps', 0) for r in results), time.time() - t0))
    for r in bad:
        print('  %s: engine_ok=%s native_ok=%s %s%s' % (r['test'], r['engine_ok'], r['native_ok'], r.get('why', ''),
                                                     ' (needs a child process: outside the environment model)' if r['test'] in NEEDS_PROCESS else ''))
    shutil.rmtree(root, ignore_errors=True)
    return 1 if unexpected else 0
