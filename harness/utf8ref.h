/* reference UTF-8 segmentation, written from RFC 3629; shares no code with neatvi */
#ifndef UTF8REF_H
#define UTF8REF_H
/* length of the well-formed sequence starting at s[i] within s[0..n), 0 if ill-formed */
static int ref_valid_at(const unsigned char *s, int i, int n)
{
	unsigned c = s[i];
	if (c == 0) return 0;
	if (c < 0x80) return 1;
	if (c >= 0xc2 && c <= 0xdf) return (i + 1 < n && (s[i+1] & 0xc0) == 0x80) ? 2 : 0;
	if (c >= 0xe0 && c <= 0xef) {
		if (i + 2 >= n) return 0;
		if ((s[i+1] & 0xc0) != 0x80 || (s[i+2] & 0xc0) != 0x80) return 0;
		if (c == 0xe0 && s[i+1] < 0xa0) return 0;
		if (c == 0xed && s[i+1] >= 0xa0) return 0;
		return 3;
	}
	if (c >= 0xf0 && c <= 0xf4) {
		if (i + 3 >= n) return 0;
		if ((s[i+1] & 0xc0) != 0x80 || (s[i+2] & 0xc0) != 0x80 || (s[i+3] & 0xc0) != 0x80) return 0;
		if (c == 0xf0 && s[i+1] < 0x90) return 0;
		if (c == 0xf4 && s[i+1] >= 0x90) return 0;
		return 4;
	}
	return 0;
}
static int ref_code(const unsigned char *s, int l)
{
	if (l == 1) return s[0];
	if (l == 2) return ((s[0] & 0x1f) << 6) | (s[1] & 0x3f);
	if (l == 3) return ((s[0] & 0x0f) << 12) | ((s[1] & 0x3f) << 6) | (s[2] & 0x3f);
	return ((s[0] & 0x07) << 18) | ((s[1] & 0x3f) << 12) | ((s[2] & 0x3f) << 6) | (s[3] & 0x3f);
}
/* 1 if s[0..n) is well-formed UTF-8 without NUL */
static int ref_valid(const unsigned char *s, int n)
{
	int i = 0, l;
	while (i < n) {
		l = ref_valid_at(s, i, n);
		if (!l)
			return 0;
		i += l;
	}
	return 1;
}
#endif
