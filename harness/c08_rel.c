/*
 * C08: operators, inserts, puts and registers, by relations between runs of the real main() in vi mode
 * (no reference model of the motions is needed):
 * MODE 0  pairs of key sequences that must have the same effect on file and cursor:
 *         x/d<space> X/dh D/d$ C/c$ s/c<space> S/cc Y/yy (the POSIX definitions), "ad<m>"aP / d<m>P, insert-mode editing keys (^H ^W ^U)
 *         against typing the surviving text, with symbolic start position, count and typed text.
 * MODE 1  what d<m> removes is what y<m>P inserts: three runs (nothing, d<m>, y<m>P) from a symbolic
 *         position with a motion from a menu; the removed bytes are located by comparing the first two
 *         files, and the third must be the original with those bytes inserted once more in front of them.
 * MODE 2  direct little models: three line deletes shift the numbered registers ("1p "2p "3p reveal them in
 *         reverse order), an upper-case register name appends, o/O copy the indentation (autoindent), J, a quoted
 *         newline, ^D in insert mode.
 */
#include "vih.h"
#include "slots.h"
#ifndef MODE
#define MODE 0
#endif
#define OUTSZ 512
struct res { int len; char data[OUTSZ]; };
static char keys[3][256], file0[160];
static int nk[3], flen;
static void run(void *out, int k)
{
	struct res *r = out;
	env_mkfile("f", file0, flen, 5);
	env_lines = "3";
	env_columns = "24";
	env_exinit = "set nohl | set noru | set noorder | set noshape";
	memcpy(env_in, keys[k], nk[k]);
	env_in_len = nk[k];
	vih_run_vi("f");
	r->len = vih_filelen("f");
	if (r->len > OUTSZ)
		r->len = OUTSZ;
	if (r->len > 0)
		memcpy(r->data, vih_file("f"), r->len);
}
static void run0(void *out) { run(out, 0); }
static void run1(void *out) { run(out, 1); }
static void run2(void *out) { run(out, 2); }
static int add(char *d, int n, const char *s) { int l = strlen(s); memcpy(d + n, s, l); return n + l; }
static int addn(char *d, int n, const char *s, int l) { memcpy(d + n, s, l); return n + l; }
/* expand #t #1 #2 in a key-sequence template */
static const char *exp_start = "";
static void expand(char *d, const char *f, const char *t, const char *a, const char *b)
{
	int n = 0;
	for (; *f; f++) {
		if (*f == '#' && f[1]) {
			const char *r = f[1] == 't' ? t : f[1] == '1' ? a : f[1] == 's' ? exp_start : b;
			n = add(d, n, r);
			f++;
		} else {
			d[n++] = *f;
		}
	}
	d[n] = 0;
}

void harness(void)
{
	static struct res r0, r1, r2;
	char start[16], txt[12], c1[8], c2[8];
	int row, col, i;
	/* the buffer: four lines with blanks, brackets, a 2-byte character, an empty line and an indented line;
	 * SYMBUF: the first two characters of line 2 are symbolic (ASCII letter or blank or bracket, 2-byte, tab) */
	{
		char l2[16] = "a\xc3\xa9";
		int n2 = 3;
#ifdef SYMBUF
		n2 = slot_gen(l2, "l2", SL_ASCII | SL_2B | SL_TAB, "a (");
		n2 += slot_gen(l2 + n2, "l2", SL_ASCII | SL_2B | SL_TAB, "a (");
#endif
		flen = add(file0, 0, "ab cd\n");
		flen = addn(file0, flen, l2, n2);
		flen = add(file0, flen, " x(y) \xc3\xa9w\n\n\tend x\n");
		file0[flen] = 0;
	}
	strcpy(txt, "Z");
	strcpy(c1, "p");
	strcpy(c2, "q");
#if MODE == 2
	txt[slot_gen(txt, "txt", SL_ASCII | SL_2B, "xZ")] = 0;
#endif
#if MODE != 2
	{
		static const int cols[] = {1, 2, 3, 5, 8};
		row = 1 + symx_conc(symx_u8("row") % 4);
		col = cols[symx_conc(symx_u8("col") % 5)];
		start[0] = '0' + row; start[1] = 'G'; start[2] = '0' + col; start[3] = '|'; start[4] = 0;
	}
#endif
#if MODE == 0
	{
		static const char *pairs[][2] = {
			{"x", "d "}, {"X", "dh"}, {"D", "d$"}, {"C#t\033", "c$#t\033"}, {"s#t\033", "c #t\033"}, {"S#t\033", "cc#t\033"},
			{"Yp", "yyp"}, {"\"adw\"aP", "dwP"}, {"\"ade\"aP", "deP"}, {"\"adb\"aP", "dbP"}, {"\"adj\"aP", "djP"},
			{"\"ayw\"ap", "ywp"}, {"\"ad0\"aP", "d0P"}, {"\"adfx\"aP", "dfxP"},
			{"i#1#2\010\033", "i#1\033"}, {"i#1 #2\027\033", "i#1 \033"}, {"i#1#2\025\033", "i\033"},
			{"a#1#2\010\010#2\033", "a#2\033"}, {"A#1\010#2\033", "$a#2\033"}, {"o#1#2\010\033", "o#1\033"},
			/* a character-wise put leaves the cursor on the last character put, as typing the same text with a does
			 * (the text is typed on a scratch line, yanked from its first non-blank (autoindent) into a register, the scratch line undone) */
			{"O#1#2\033^\"ay$u#s\"ap", "a#1#2\033"}, {"O#1#2\033^\"ay$u#s2\"ap", "a#1#2#1#2\033"},
		};
		int p = symx_u8("pair"), cnt;
		char a[64], b[64], cp[4] = "";
		symx_assume(p < 22);
		p = symx_conc(p);
		/* typed characters are symbolic only where the pair types something */
		if (p >= 3 && p <= 5)
			txt[slot_gen(txt, "txt", SL_ASCII | SL_2B, "xZ ")] = 0;
		if (p >= 14) {
			c1[slot_gen(c1, "c1", SL_ASCII | SL_2B, "pq")] = 0;
			c2[slot_gen(c2, "c2", SL_ASCII | SL_2B, "pq")] = 0;
		}
		cnt = p == 2 ? symx_conc(symx_u8("count") % 3) : 0;
		if (cnt)		/* a count in front of D / d$ (counts of x and dl differ legitimately at the line end) */
			cp[0] = '1' + cnt;
		exp_start = start;
		expand(a, pairs[p][0], txt, c1, c2);
		expand(b, pairs[p][1], txt, c1, c2);
		for (i = 0; i < 2; i++) {
			nk[i] = add(keys[i], 0, start);
			nk[i] = add(keys[i], nk[i], cp);
			nk[i] = add(keys[i], nk[i], i ? b : a);
			/* marker at the cursor; the unnamed register is revealed too unless the pair names a register (neatvi then leaves the unnamed one alone) */
			nk[i] = add(keys[i], nk[i], (p >= 7 && p <= 13) || p >= 20 ? "\033iM\033:w\n:q\n" : "\033iM\033G$p:w\n:q\n");
		}
		symx_observe_mem("keysA", keys[0], nk[0]);
		symx_isolated(run0, &r0, sizeof(r0));
		symx_isolated(run1, &r1, sizeof(r1));
		symx_assert(r0.len > 0 && r1.len > 0, "both runs wrote the file");
		symx_observe_mem("fileA", r0.data, r0.len);
		symx_assert(r0.len == r1.len && !memcmp(r0.data, r1.data, r0.len), "the two key sequences have the same effect on text, cursor and register");
	}
#elif MODE == 1
	{
		static const char *mots[] = {"w", "b", "e", "W", "B", "E", "$", "0", "^", "l", "h", "j", "k", "G", "fx", "tx", "Fw", "Tw", "d", "2w", "3l", "%", "}", "{", "+", "-", "1G", "y"};
		int m = symx_u8("motion"), p, k, q;
		char mot[8];
		symx_assume(m < 28);
		m = symx_conc(m);
		strcpy(mot, mots[m]);
		nk[0] = add(keys[0], 0, start);
		nk[0] = add(keys[0], nk[0], ":w\n:q\n");
		nk[1] = add(keys[1], 0, start);
		nk[1] = add(keys[1], nk[1], "d");
		nk[1] = add(keys[1], nk[1], m == 27 ? "d" : mot);	/* "y" stands for the doubled operator: dd / yy */
		nk[1] = add(keys[1], nk[1], "\033:w\n:q\n");
		nk[2] = add(keys[2], 0, start);
		nk[2] = add(keys[2], nk[2], "y");
		nk[2] = add(keys[2], nk[2], m == 18 ? "y" : mot);
		nk[2] = add(keys[2], nk[2], "P\033:w\n:q\n");
		symx_observe_mem("keysD", keys[1], nk[1]);
		symx_isolated(run0, &r0, sizeof(r0));
		symx_isolated(run1, &r1, sizeof(r1));
		symx_isolated(run2, &r2, sizeof(r2));
		symx_assert(r0.len > 0 && r0.len == flen && !memcmp(r0.data, file0, flen), "moving to the start position changes nothing");
		symx_assert(r1.len <= r0.len, "d removes text");
		k = r0.len - r1.len;
		for (p = 0; p < r1.len && r0.data[p] == r1.data[p]; p++)
			;
		/* the removed bytes are O[p..p+k): the rest must be untouched */
		symx_assert(!memcmp(r0.data + p + k, r1.data + p, r1.len - p), "d removes one contiguous piece and nothing else");
		symx_observe("removed", k);
		if (k > 0)
			symx_reach("removed");
		/* y + P: the same piece once more, somewhere inside or next to itself (first difference = its start or a position inside a run of equal text) */
		symx_assert(r2.len == r0.len + k, "y<m> P inserts exactly as many bytes as d<m> removes");
		if (r2.len == r0.len + k) {
			/* O with the piece doubled: try the insertion at p (in front of the piece) */
			int ok = !memcmp(r2.data, r0.data, p) && !memcmp(r2.data + p, r0.data + p, k) && !memcmp(r2.data + p + k, r0.data + p, r0.len - p);
			/* equal neighbouring text makes the start ambiguous: the doubled piece may sit up to k bytes earlier */
			for (q = 1; q <= k && !ok && q <= p; q++)
				if (!memcmp(r0.data + p - q, r0.data + p - q + k, q))
					ok = !memcmp(r2.data, r0.data, p - q) && !memcmp(r2.data + p - q, r0.data + p - q, k) && !memcmp(r2.data + p - q + k, r0.data + p - q, r0.len - p + q);
			symx_assert(ok, "what y<m> P inserts is the text d<m> removes, put in front of it");
		}
	}
#else
	{
		char exp[OUTSZ];
		int sub = symx_conc(symx_u8("sub") % 9), n;
		char *l1 = file0, *l2 = strchr(l1, '\n') + 1, *l3 = strchr(l2, '\n') + 1, *l4 = strchr(l3, '\n') + 1;
		n = 0;
		if (sub == 0) {		/* numbered registers: lines 1..3 deleted; the remaining line, then line 3, line 2, line 1 */
			nk[0] = add(keys[0], 0, "1Gddddddk\"1p\"2p\"3p:w\n:q\n");
			n = add(exp, n, l4);
			n = addn(exp, n, l3, l4 - l3);
			n = addn(exp, n, l2, l3 - l2);
			n = addn(exp, n, l1, l2 - l1);
		} else if (sub == 1) {	/* append to a register */
			nk[0] = add(keys[0], 0, "1G\"ayyj\"AyyG\"ap:w\n:q\n");
			n = add(exp, n, file0);
			n = addn(exp, n, l1, l3 - l1);
		} else if (sub == 2) {	/* autoindent below an indented line */
			nk[0] = add(keys[0], 0, "4Go");
			nk[0] = add(keys[0], nk[0], txt);
			nk[0] = add(keys[0], nk[0], "\033:w\n:q\n");
			n = add(exp, n, file0);
			n = add(exp, n, "\t");
			n = add(exp, n, txt);
			n = add(exp, n, "\n");
		} else if (sub == 7) {	/* ^D takes one level of indentation away (here: the copied tab) and nothing of the typed text */
			nk[0] = add(keys[0], 0, "4Go ");
			nk[0] = add(keys[0], nk[0], txt);
			nk[0] = add(keys[0], nk[0], "\004\033:w\n:q\n");
			n = add(exp, n, file0);
			n = add(exp, n, " ");
			n = add(exp, n, txt);
			n = add(exp, n, "\n");
		} else if (sub == 8) {	/* the same in front of the text of an indented line */
			nk[0] = add(keys[0], 0, "4GI ");
			nk[0] = add(keys[0], nk[0], txt);
			nk[0] = add(keys[0], nk[0], "\004\033:w\n:q\n");
			n = addn(exp, n, file0, l4 - file0);
			n = add(exp, n, " ");
			n = add(exp, n, txt);
			n = add(exp, n, l4 + 1);
		} else if (sub == 6) {	/* a quoted newline typed in insert mode splits the line like a typed one; the other lines stay */
			nk[0] = add(keys[0], 0, "2G0aX\026\nY\033:w\n:q\n");
			n = addn(exp, n, l1, l2 - l1);
			n = add(exp, n, "aX\nY");
			n = add(exp, n, l2 + 1);
		} else if (sub == 5) {	/* J leaves the cursor on the join point, counted in characters */
			char l1[16];
			int n1 = slot_gen(l1, "j1", SL_ASCII | SL_2B | SL_3B, "a1");
			n1 += slot_gen(l1 + n1, "j1", SL_ASCII | SL_2B | SL_3B, "a1");
			flen = addn(file0, 0, l1, n1);
			flen = add(file0, flen, "\nabcdef\n");
			file0[flen] = 0;
			nk[0] = add(keys[0], 0, "1GJiZ\033:w\n:q\n");
			n = addn(exp, n, l1, n1);
			n = add(exp, n, "Z abcdef\n");
		} else if (sub == 4) {	/* a character-wise delete across a line end, then a line delete: "2 keeps its character-wise nature */
			nk[0] = add(keys[0], 0, "1G3|d/x\ndd\"2p:w\n:q\n");
			n = add(exp, n, " cd\na\xc3\xa9 \n\tend x\n");
		} else {		/* O above an indented line */
			nk[0] = add(keys[0], 0, "4GO");
			nk[0] = add(keys[0], nk[0], txt);
			nk[0] = add(keys[0], nk[0], "\033:w\n:q\n");
			n = addn(exp, n, file0, l4 - file0);
			n = add(exp, n, "\t");
			n = add(exp, n, txt);
			n = add(exp, n, "\n");
			n = add(exp, n, l4);
		}
		(void) row; (void) col; (void) start; (void) c1; (void) c2; (void) i;
		symx_isolated(run0, &r0, sizeof(r0));
		symx_observe_mem("file", r0.data, r0.len);
		symx_assert(r0.len == n && !memcmp(r0.data, exp, n), sub == 0 ? "line deletions shift the numbered registers" :
			sub == 1 ? "an upper-case register name appends" : sub == 4 ? "a shifted numbered register is put the way it was deleted (character-wise)" :
			sub == 5 ? "J joins with one blank and leaves the cursor on it" : sub == 6 ? "multi-line input replaces only its own line" :
			sub == 7 || sub == 8 ? "^D removes one level of indentation and none of the typed text" :
			"o / O copy the indentation of the line");
	}
#endif
	symx_reach("end");
}
