/*
 * C12-H1: literal fast path (rstr.c) vs the general engine (rset.c/regex.c) on patterns of the
 * simple form  ^? \<? literal \>? $?  .  Symbolic: the four anchor flags, the literal (PL character
 * slots), the newline-terminated line (LL slots), ignore-case, not-BOL, not-EOL.
 */
#include <string.h>
#include <stdlib.h>
#include "vi.h"
#include "slots.h"
#ifndef PL
#define PL 2
#endif
#ifndef LL
#define LL 3
#endif
#define CLS (SL_ASCII | SL_2B | SL_2BU)	/* U+00E9 and U+00C9: a case pair that only ASCII folding must not touch */
void harness(void)
{
	char pat[32], line[LL * 4 + 2];
	char *pp = pat;
	int g1[6], g2[6];
	int i, n = 0, flg, cf, r1, r2, len, litlen, kf;
	struct rstr *rs;
	struct rset *set;
	int lbeg = symx_u8("lbeg") & 1, wbeg = symx_u8("wbeg") & 1, wend = symx_u8("wend") & 1, lend = symx_u8("lend") & 1;
	if (lbeg) pat[n++] = '^';
	if (wbeg) { pat[n++] = '\\'; pat[n++] = '<'; }
	litlen = slots_text(pat + n, "lit", PL, CLS, "aA_- ", NULL);
	n += litlen;
	if (wend) { pat[n++] = '\\'; pat[n++] = '>'; }
	if (lend) pat[n++] = '$';
	pat[n] = 0;
	symx_assume(n > 0);
	len = slots_text(line, "ln", LL, CLS, "aA_- ", NULL);
	line[len] = '\n';
	line[len + 1] = 0;
	cf = symx_u8("icase") & 1 ? RE_ICASE : 0;
	flg = (symx_u8("notbol") & 1 ? RE_NOTBOL : 0) | (symx_u8("noteol") & 1 ? RE_NOTEOL : 0);
	symx_observe_mem("pat", pat, n + 1);
	symx_observe_mem("line", line, len + 2);
	rs = rstr_make(pat, cf);
	set = rset_make(1, &pp, cf);
	symx_assert(rs != 0 && set != 0, "both compile");
	if (!rs || !set)
		return;
	for (i = 0; i < 6; i++)
		g1[i] = g2[i] = -7;
	r1 = rstr_find(rs, line, 3, g1, flg);
	r2 = rset_find(set, line, 3, g2, flg);
	symx_observe("r1", r1);
	symx_observe("r2", r2);
	symx_reach(r2 >= 0 ? "found" : "notfound");
	/* known finding: the engine lets ^ match after the terminating newline (offset strlen), the literal path never does */
	kf = r1 < 0 && r2 >= 0 && g2[0] == len + 1;
	symx_assert((r1 >= 0) == (r2 >= 0), kf ? "found/not-found agree (engine match begins after the terminating newline)" : "found/not-found agree");
	if (r1 >= 0 && r2 >= 0) {
		symx_assert(g1[0] == g2[0] && g1[1] == g2[1], "match offsets agree");
		symx_assert(g1[2] == -1 && g1[3] == -1 && g1[4] == -1 && g1[5] == -1, "groups other than the whole match are unset");
	}
	rstr_free(rs);
	rset_free(set);
	symx_reach("end");
}
