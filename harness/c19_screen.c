/*
 * C19: the terminal shows a true window of the buffer with the cursor on its character.
 * The real main() in vi mode; N commands chosen by the solver from a menu (motions, scrolls, edits,
 * undo/redo, ex commands), then ^L (full repaint), then quit.  The byte stream written to the
 * terminal is interpreted by the emulator of vt.h twice: up to the moment the ^L key is read
 * (incrementally maintained screen A) and up to the key after it (fully repainted screen B).
 * Oracle: the text rows of A and B are identical and so is the cursor cell; the cursor row is inside
 * the window; with highlighting off and ASCII text every row of A equals the buffer line at
 * xtop+row clipped to [xleft, xleft+cols), rows past the end show "~".
 */
#include "vih.h"
#include "vi.h"
#include "vt.h"
#ifndef N
#define N 2
#endif
#ifndef BUF
#define BUF 1
#endif
#ifndef ROWS
#define ROWS 6
#endif
#ifndef COLS
#define COLS 20
#endif
#define STR_(x) #x
#define STR(x) STR_(x)
static const char *menu[] = {
	"j", "k", "G", "H", "L", "\005", "\031", "\004", "\025", "\006", "\002", "z\n", "z.", "z-",
	"dd", "x", "onew\033", "Oabove\033", "p", "P", "J", "u", "\022", ":d\n", ":1,3d\n", ":$\n",
	"$", "0", "3G", "2dd", "yyP", "5j", "w", "A tail\033", ":2\n", "\005\005",
	"Hdk", "Hckchanged\033", "Ld2j", "Hjd2k",
	"oabcdefghijklmnopqrstuvwxyz\nshort\033", "A abcdefghijklmnopqrstuvwxyz\nq\033", "Oone\ntwo\nthree\033",
};
#define NMENU 43
static struct vt A, B;
static char want[ROWS][COLS + 2];
static int wrow, wcol, nwant;
static void snap(int k)
{
	int r, i;
	char *ln;
	if (k != 0)
		return;
	/* what a true window of the buffer looks like right now */
	nwant = term_rows();
	for (r = 0; r < nwant && r < ROWS; r++) {
		ln = lbuf_get(xb, xtop + r);
		memset(want[r], ' ', COLS);
		want[r][COLS] = 0;
		if (!ln) {
			if (xtop + r)
				want[r][0] = '~';
			continue;
		}
		for (i = 0; i < COLS && xleft + i < (int) strlen(ln) && ln[xleft + i] != '\n'; i++)
			want[r][i] = ln[xleft + i];
	}
	wrow = xrow - xtop;
	ln = lbuf_get(xb, xrow);
	wcol = xoff - xleft;
	(void) ln;
}
void harness(void)
{
	static char file[2048];
	int i, n = 0, r;
	for (i = 0; i < (BUF == 0 ? 0 : BUF == 1 ? 3 : 12); i++)
		n += sprintf(file + n, BUF == 3 && i == 1 ? "line %d is a long line that does not fit in the window at all\n" : "line %d\n", i + 1);
	env_mkfile("f", file, n, 5);
	env_lines = STR(ROWS);
	env_columns = STR(COLS);
	env_exinit = "set nohl | set noru";
	for (i = 0; i < N; i++) {
		int c = symx_u8("cmd");
		symx_assume(c < NMENU);
		c = symx_conc(c);
		vih_str(menu[c]);
	}
	env_mark_at[0] = env_in_len;		/* the ^L key */
	vih_str("\014");
	env_mark_at[1] = env_in_len;		/* the key after it */
	env_nmarks = 2;
	env_mark_tty[0] = env_mark_tty[1] = -1;
	env_mark_fn = snap;
	vih_run_vi("f");
	symx_assert(env_mark_tty[0] >= 0 && env_mark_tty[1] >= 0, "both screen states were reached");
	symx_assert(env_tty_total == env_tty_len, "terminal stream captured completely");
	vt_init(&A, ROWS, COLS);
	vt_feed(&A, env_tty, env_mark_tty[0]);
	B = A;
	vt_feed(&B, env_tty + env_mark_tty[0], env_mark_tty[1] - env_mark_tty[0]);
	symx_assert(!A.bad && !B.bad, "only sequences of the emulated subset are used");
	for (r = 0; r < nwant && r < ROWS; r++) {
		symx_assert(!memcmp(A.cell[r], B.cell[r], COLS), "incremental update == full repaint (no stale or missing row)");
		symx_assert(!memcmp(A.cell[r], want[r], COLS), "every row shows its buffer line, clipped to the window");
	}
	symx_assert(A.r == B.r && A.c == B.c, "the terminal cursor is where a full repaint puts it");
	symx_assert(wrow >= 0 && wrow < nwant, "the window contains the cursor line");
	symx_assert(A.r == wrow, "the terminal cursor is on the row of the current line");
	symx_assert(A.c == (wcol < 0 ? 0 : wcol), "the terminal cursor is on the cell of the current character");
	symx_observe("row", A.r);
	symx_observe("col", A.c);
	symx_observe_mem("row0", A.cell[0], COLS);
	symx_reach("end");
}
