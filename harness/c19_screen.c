/*
 * C19: the terminal shows a true window of the buffer with the cursor on its character.
 * The real main() in vi mode; N commands chosen by the solver from a menu (motions, scrolls, edits,
 * undo/redo, ex commands), then ^L (full repaint), then quit.  The byte stream written to the
 * terminal is interpreted by the emulator of vt.h twice: up to the moment the ^L key is read
 * (incrementally maintained screen A) and up to the key after it (fully repainted screen B).
 * Oracle: the text rows of A and B are identical and so is the cursor cell; the cursor row is inside
 * the window; with highlighting off and ASCII text every row of A equals the buffer line at
 * xtop+row clipped to [xleft, xleft+cols), rows past the end show "~".  BUF 4 has lines of right-to-left
 * letters longer than the window: character p of such a line belongs in column cols-1-(p-xleft).
 */
#include "vih.h"
#include "vi.h"
#include "vt.h"
#ifndef N
#define N 2
#endif
#ifndef BUF
#define BUF 1
#endif
#ifndef ROWS
#define ROWS 6
#endif
#ifndef COLS
#define COLS 20
#endif
#define STR_(x) #x
#define STR(x) STR_(x)
static const char *menu[] = {
	"j", "k", "G", "H", "L", "\005", "\031", "\004", "\025", "\006", "\002", "z\n", "z.", "z-",
	"dd", "x", "onew\033", "Oabove\033", "p", "P", "J", "u", "\022", ":d\n", ":1,3d\n", ":$\n",
	"$", "0", "3G", "2dd", "yyP", "5j", "w", "A tail\033", ":2\n", "\005\005",
	"Hdk", "Hckchanged\033", "Ld2j", "Hjd2k",
	"oabcdefghijklmnopqrstuvwxyz\nshort\033", "A abcdefghijklmnopqrstuvwxyz\nq\033", "Oone\ntwo\nthree\033",
	"$j", "30|", "$k", "j$",
};
#define NMENU 47
/* BUF 4: right-to-left lines (Arabic letters, shaping off) longer than the window */
static const char *menu_rtl[] = {
	"j", "k", "$", "0", "x", "25l", "12l", "h", "dd", "u", "p", "yyP", "G", "H", "\005", "D", "30|", "5|", "jj", "3x",
};
#define NMENU_RTL 20
/* BUF 5: a split screen (12 rows: two windows of 5 text rows and a status row each).  The window that holds the terminal
 * cursor is the active one and is the one compared; the other window is redrawn only when it becomes active. */
static const char *menu_win[] = {
	"j", "k", "\005", "\031", "\004", "\025", "dd", "onew\033", "p", "G", "H", "L", "\027j", "\027k", "\027x", "\027o", "\027c", "u", "5j", "z\n",
};
#define NMENU_WIN 20
#define AR1 "\330\247\330\250\330\252\330\253\330\254\330\255\330\256\330\257\330\260\330\261\330\262\330\263\330\264\330\265\330\266\330\267"
#define AR2 "\330\270\330\271\330\272\331\201\331\202\331\203\331\204\331\205\331\206\331\207\331\210\331\211\331\212\330\242\330\243\330\244"
static struct vt A, B;
static char want[ROWS][COLS + 2];
static int wrow, wcol, nwant, skip[ROWS];
static void snap(int k)
{
	int r, i;
	char *ln;
	if (k != 0)
		return;
	/* what a true window of the buffer looks like right now */
	nwant = term_rows();
	for (r = 0; r < nwant && r < ROWS; r++) {
		ln = lbuf_get(xb, xtop + r);
		memset(want[r], ' ', COLS);
		want[r][COLS] = 0;
		if (!ln) {
			if (xtop + r)
				want[r][0] = '~';
			continue;
		}
		if ((unsigned char) ln[0] >= 0x80) {	/* a line of two-byte right-to-left letters: character p is in column cols-1-(p-xleft) */
			int nch = (int) (strlen(ln) - 1) / 2;
			for (i = 0; ln[i] && ln[i] != '\n'; i++)
				if ((unsigned char) ln[i] < 0x80)
					skip[r] = 1;	/* a Latin character was put into the line: mixed directions are outside the cell oracle */
			if (skip[r])
				continue;
			for (i = 0; i < COLS; i++) {
				int p = xleft + COLS - 1 - i;
				if (p >= 0 && p < nch)
					want[r][i] = 0x80 | ((ln[2 * p] & 1) << 6) | (ln[2 * p + 1] & 0x3f);
			}
			continue;
		}
		for (i = 0; i < COLS && xleft + i < (int) strlen(ln) && ln[xleft + i] != '\n'; i++)
			want[r][i] = ln[xleft + i];
	}
	wrow = xrow - xtop;
	ln = lbuf_get(xb, xrow);
	wcol = xoff - xleft;
	if (ln && (unsigned char) ln[0] >= 0x80)
		wcol = COLS - 1 - (xoff - xleft);
}
void harness(void)
{
	static char file[2048];
	int i, n = 0, r, wbeg = 0;
	if (BUF == 4)
		n = sprintf(file, "line 1\n" AR1 AR2 "\n" AR2 "\nline 4\n" AR1 "\nline 6\nline 7\nline 8\n");
	for (i = 0; i < (BUF == 0 || BUF == 4 ? 0 : BUF == 1 ? 3 : BUF == 5 ? 20 : 12); i++)
		n += sprintf(file + n, BUF == 3 && i == 1 ? "line %d is a long line that does not fit in the window at all\n" : "line %d\n", i + 1);
	env_mkfile("f", file, n, 5);
	env_lines = STR(ROWS);
	env_columns = STR(COLS);
	env_exinit = BUF == 4 ? "set nohl | set noru | set noshape" : "set nohl | set noru";
	if (BUF == 5) {		/* split, and start in the upper or in the lower window */
		vih_str("\027s");
		if (symx_conc(symx_u8("lower") & 1))
			vih_str("\027j");
	}
	for (i = 0; i < N; i++) {
		int c = symx_u8("cmd");
		symx_assume(c < (BUF == 4 ? NMENU_RTL : BUF == 5 ? NMENU_WIN : NMENU));
		c = symx_conc(c);
		vih_str(BUF == 4 ? menu_rtl[c] : BUF == 5 ? menu_win[c] : menu[c]);
	}
	env_mark_at[0] = env_in_len;		/* the ^L key */
	vih_str("\014");
	env_mark_at[1] = env_in_len;		/* the key after it */
	env_nmarks = 2;
	env_mark_tty[0] = env_mark_tty[1] = -1;
	env_mark_fn = snap;
	vih_run_vi("f");
	symx_assert(env_mark_tty[0] >= 0 && env_mark_tty[1] >= 0, "both screen states were reached");
	symx_assert(env_tty_total == env_tty_len, "terminal stream captured completely");
	vt_init(&A, ROWS, COLS);
	vt_feed(&A, env_tty, env_mark_tty[0]);
	B = A;
	vt_feed(&B, env_tty + env_mark_tty[0], env_mark_tty[1] - env_mark_tty[0]);
#ifdef VT_DUMP
	{
		extern int fprintf(void *, const char *, ...);
		extern void *stderr;
		int c;
		fprintf(stderr, "xtop-rel row %d col %d xleft?; A cursor %d,%d B cursor %d,%d\n", wrow, wcol, A.r, A.c, B.r, B.c);
		for (r = 0; r < ROWS; r++) {
			fprintf(stderr, "A|");
			for (c = 0; c < COLS; c++) fprintf(stderr, A.cell[r][c] & 0x80 ? "<%02x>" : "%c", (unsigned char) A.cell[r][c]);
			fprintf(stderr, "|\nB|");
			for (c = 0; c < COLS; c++) fprintf(stderr, B.cell[r][c] & 0x80 ? "<%02x>" : "%c", (unsigned char) B.cell[r][c]);
			fprintf(stderr, "|\nW|");
			for (c = 0; c < COLS; c++) fprintf(stderr, want[r][c] & 0x80 ? "<%02x>" : "%c", (unsigned char) want[r][c]);
			fprintf(stderr, "|\n");
		}
	}
#endif
	symx_assert(!A.bad && !B.bad, "only sequences of the emulated subset are used");
	if (BUF == 5 && nwant < ROWS - 1 && A.r >= ROWS / 2)
		wbeg = ROWS / 2;		/* the lower window of a split screen */
	for (r = 0; r < nwant && wbeg + r < ROWS; r++) {
		symx_assert(!memcmp(A.cell[wbeg + r], B.cell[wbeg + r], COLS), "incremental update == full repaint (no stale or missing row)");
		if (!skip[r])
			symx_assert(!memcmp(A.cell[wbeg + r], want[r], COLS), "every row shows its buffer line, clipped to the window");
	}
	symx_assert(A.r == B.r && A.c == B.c, "the terminal cursor is where a full repaint puts it");
	symx_assert(wrow >= 0 && wrow < nwant, "the window contains the cursor line");
	symx_assert(A.r == wbeg + wrow, "the terminal cursor is on the row of the current line");
	if (!(wrow >= 0 && wrow < ROWS && skip[wrow]))
		symx_assert(A.c == (wcol < 0 ? 0 : wcol), "the terminal cursor is on the cell of the current character");
	symx_observe("row", A.r);
	symx_observe("col", A.c);
	symx_observe_mem("row0", A.cell[0], COLS);
	symx_reach("end");
}
