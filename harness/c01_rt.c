/*
 * C01: read-then-write reproduces the file; a range write is the concatenation of its lines;
 * a longer previous target is cut.  Line-buffer level (lbuf_rd / lbuf_wr over the environment's
 * file system).
 *
 * MODE 0 (H1/H2): every byte of a file of N bytes is symbolic over 1..255 (newlines anywhere,
 *   invalid UTF-8 included); symbolic read chunking; symbolic range [beg,end); symbolic length of
 *   the previous content of the target (0..N+3).
 * MODE 1 (H3): the real constants.  Up to 3 lines whose lengths the solver picks from windows
 *   around 1 KiB (read chunk) and 4 KiB (write batch): filler is concrete, the first, last and
 *   chunk-boundary bytes are symbolic; final newline present or not.
 * MODE 2 (H3): line counts around the line-table growth points 512 and 1024 (two-byte lines).
 */
#include <string.h>
#include <stdlib.h>
#include <fcntl.h>
#include "vi.h"
#include "symx.h"
#include "env.h"
int env_open(const char *path, int flags, ...);
int env_close(int fd);
static struct lbuf *LB;
struct lbuf *ex_lbuf(void) { return LB; }
#ifndef MODE
#define MODE 0
#endif
#ifndef N
#define N 4
#endif
#define MAXF 16400
static char in[MAXF], want[MAXF + 2];
static int inlen, wantlen;
static int shortmode;	/* the first write() of the target is cut short: 1 byte, half, all but one, or 1 byte twice in a row (it must be retried from where it stopped) */

static void roundtrip(int beg_sym, int prevlen)
{
	int fd, f, nl = 0, i, beg, end, l0, pos;
	env_mkfile("in", in, inlen, 5);
	LB = lbuf_make();
	fd = env_open("in", O_RDONLY);
	symx_assert(fd >= 0, "open input");
	symx_assert(lbuf_rd(LB, fd, 0, 0) == 0, "read succeeds");
	env_close(fd);
	for (i = 0; i < inlen; i++)
		nl += in[i] == '\n';
	if (inlen && in[inlen - 1] != '\n')
		nl++;
	symx_assert(lbuf_len(LB) == nl, "line count == number of newline-terminated pieces");
	/* range */
	beg = 0;
	end = nl;
	if (beg_sym) {
		beg = symx_u8("beg");
		end = symx_u8("end");
		symx_assume(beg <= end && end <= nl);
		beg = symx_conc(beg);
		end = symx_conc(end);
	}
	/* expected bytes: lines [beg,end) of the input, each ended by exactly one newline */
	wantlen = 0;
	pos = 0;
	for (l0 = 0; l0 < end && pos < inlen; l0++) {
		int e = pos;
		while (e < inlen && in[e] != '\n')
			e++;
		if (l0 >= beg) {
			memcpy(want + wantlen, in + pos, e - pos);
			wantlen += e - pos;
			want[wantlen++] = '\n';
		}
		pos = e + 1;
	}
	/* previous content of the target */
	if (prevlen >= 0) {
		static char junk[MAXF + 8];
		memset(junk, '#', prevlen);
		env_mkfile("out", junk, prevlen, 7);
	}
	if (shortmode) {
		env_fault_n = ENV_NFAULT;
		env_fault_kind[env_calls + 1] = ENV_SHORT;	/* the call after the open() */
		env_fault_arg[env_calls + 1] = shortmode == 1 || shortmode == 4 ? 1 : shortmode == 2 ? -1 : -2;
		if (shortmode == 4) {		/* and the retry is cut short as well */
			env_fault_kind[env_calls + 2] = ENV_SHORT;
			env_fault_arg[env_calls + 2] = 1;
		}
	}
	fd = env_open("out", O_WRONLY | O_CREAT, 0600);
	symx_assert(fd >= 0, "open output");
	symx_assert(lbuf_wr(LB, fd, beg, end) == 0, "write succeeds");
	symx_assert(env_close(fd) == 0, "close succeeds");
	f = env_find("out");
	symx_assert(f >= 0, "output exists");
	symx_observe("outlen", env_fs[f].len);
	symx_assert(env_fs[f].len == wantlen, "file length == bytes of the written lines (longer previous content is cut)");
	symx_assert(env_fs[f].len != wantlen || !memcmp(env_fs[f].data, want, wantlen), "file bytes == concatenation of the lines, one newline each");
	if (!beg_sym || (beg == 0 && end == nl)) {
		/* whole buffer: the original bytes, plus one newline iff the last line lacked one */
		int extra = inlen && in[inlen - 1] != '\n';
		symx_assert(wantlen == inlen + extra, "round trip adds at most the missing final newline");
		symx_assert(!memcmp(env_fs[f].data, in, inlen < env_fs[f].len ? inlen : env_fs[f].len), "round trip reproduces the original bytes");
		symx_reach("whole");
	}
	lbuf_free(LB);
}

void harness(void)
{
	int i;
#if MODE == 0
	int chunk, prev;
	inlen = symx_u8("len");
	symx_assume(inlen <= N);
	inlen = symx_conc(inlen);
	for (i = 0; i < inlen; i++) {
		in[i] = symx_u8("b");
		symx_assume(in[i] != 0);
	}
	chunk = symx_u8("chunk");		/* read() returns at most this many bytes at a time */
	symx_assume(chunk >= 1 && chunk <= N + 1);
	env_read_chunk = symx_conc(chunk);
	shortmode = symx_conc(symx_u8("short") % 5);
	prev = symx_u8("prev");			/* previous length of the target; N+4 = does not exist */
	symx_assume(prev <= N + 4);
	prev = symx_conc(prev);
	symx_observe_mem("in", in, inlen);
	roundtrip(1, prev == N + 4 ? -1 : prev);
#elif MODE == 1
	static const int win[] = {0, 1, 1022, 1023, 1024, 1025, 1026, 2047, 2048, 2049, 4093, 4094, 4095, 4096, 4097, 4098, 4099};
	int nlines = symx_conc(1 + symx_u8("nlines") % NL), l, nonl;
	inlen = 0;
	for (l = 0; l < nlines; l++) {
		int k = symx_u8("lenidx"), len;
		symx_assume(k < (int) (sizeof(win) / sizeof(win[0])));
		len = win[symx_conc(k)];
		memset(in + inlen, 'a' + l, len);
		if (len > 0) {
			in[inlen] = symx_u8("first");
			in[inlen + len - 1] = symx_u8("last");
			symx_assume(in[inlen] != 0 && in[inlen] != '\n' && in[inlen + len - 1] != 0 && in[inlen + len - 1] != '\n');
		}
		/* a byte that straddles the 1 KiB read chunk */
		if (inlen <= 1023 && inlen + len > 1024) {
			in[1023] = symx_u8("chunkedge");
			in[1024] = symx_u8("chunkedge");
			symx_assume(in[1023] != 0 && in[1023] != '\n' && in[1024] != 0 && in[1024] != '\n');
		}
		inlen += len;
		in[inlen++] = '\n';
	}
	nonl = symx_conc(symx_u8("nonl") & 1);
	if (nonl && inlen > 1)
		inlen--;			/* the last line lacks its newline */
	{
		int prev = symx_conc(symx_u8("prev") % 3);	/* target: absent, shorter, longer */
		shortmode = symx_conc(symx_u8("short") & 1) ? 2 : 0;
		roundtrip(RANGE, prev == 0 ? -1 : prev == 1 ? inlen / 2 : inlen + 5);
	}
#else
	static const int cnt[] = {510, 511, 512, 513, 1023, 1024, 1025};
	int k = symx_u8("cntidx"), n;
	symx_assume(k < 7);
	n = cnt[symx_conc(k)];
	for (i = 0; i < n; i++) {
		in[2 * i] = 'a' + i % 26;
		in[2 * i + 1] = '\n';
	}
	in[0] = symx_u8("first");
	in[2 * n - 2] = symx_u8("last");
	symx_assume(in[0] != 0 && in[0] != '\n' && in[2 * n - 2] != 0 && in[2 * n - 2] != '\n');
	inlen = 2 * n;
	roundtrip(0, 2 * n + 9);
#endif
	symx_reach("end");
}
