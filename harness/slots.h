/* symbolic text built per character: a slot is one character drawn from a class list */
#ifndef SLOTS_H
#define SLOTS_H
#include "symx.h"
#define SL_ASCII	1	/* one free byte from a set (or any printable byte if the set is NULL) */
#define SL_TAB		2
#define SL_2B		4	/* U+00E9, 2 bytes */
#define SL_3B		8	/* U+4E2D, 3 bytes, double width */
#define SL_COMB		16	/* U+0301 combining acute, zero width */
#define SL_AR1		32	/* U+0628 ARABIC BEH (dual joining) */
#define SL_AR2		64	/* U+0627 ARABIC ALEF (right joining) */
#define SL_ZWNJ		128	/* U+200C */
#define SL_4B		256	/* U+1F600, 4 bytes */
#define SL_WBELL	1024	/* U+9FCD: listed both as double-width and as nonprintable: drawn as a one-cell placeholder */
#define SL_2BU		512	/* U+00C9, upper-case partner of U+00E9 (no ASCII folding applies) */
#define SL_CYR		2048	/* U+0434 CYRILLIC DE: lead byte d0, whose payload is zero */

static int sl_in(unsigned char c, const char *set)
{
	int ok = 0;
	for (; *set; set++)
		ok |= c == (unsigned char) *set;
	return ok;
}

static int sl_copy(char *d, const char *s)
{
	int n = 0;
	while (s[n]) {
		d[n] = s[n];
		n++;
	}
	return n;
}

/* write one character of a class chosen by the solver; returns its byte length */
static int slot_gen(char *d, const char *name, unsigned mask, const char *ascii)
{
	unsigned k = symx_u8(name);
	symx_assume(k < 12 && ((mask >> k) & 1));
	if (k == 0) {
		unsigned char b = symx_u8(name);
		if (ascii)
			symx_assume(sl_in(b, ascii));
		else
			symx_assume(b >= 0x20 && b <= 0x7e);
		d[0] = b;
		return 1;
	}
	if (k == 1) { d[0] = '\t'; return 1; }
	if (k == 2) return sl_copy(d, "\xc3\xa9");
	if (k == 3) return sl_copy(d, "\xe4\xb8\xad");
	if (k == 4) return sl_copy(d, "\xcc\x81");
	if (k == 5) return sl_copy(d, "\xd8\xa8");
	if (k == 6) return sl_copy(d, "\xd8\xa7");
	if (k == 7) return sl_copy(d, "\xe2\x80\x8c");
	if (k == 8) return sl_copy(d, "\xf0\x9f\x98\x80");
	if (k == 10) return sl_copy(d, "\xe9\xbf\x8d");
	if (k == 11) return sl_copy(d, "\xd0\xb4");
	return sl_copy(d, "\xc3\x89");
}

/* a text of 0..max characters (length chosen by the solver); returns byte length; NUL-terminates */
static int slots_text(char *d, const char *name, int max, unsigned mask, const char *ascii, int *nchars)
{
	int n = symx_u8(name), i, len = 0;
	symx_assume(n <= max);
	n = symx_conc(n);
	for (i = 0; i < n; i++)
		len += slot_gen(d + len, name, mask, ascii);
	d[len] = 0;
	if (nchars)
		*nchars = n;
	return len;
}
#endif
