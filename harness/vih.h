/* helpers for harnesses that run the whole editor (the real main()) in vi or ex mode */
#ifndef VIH_H
#define VIH_H
#include <stdlib.h>
#include <string.h>
#include "symx.h"
#include "env.h"

static void vih_keys(const char *s, int n)
{
	memcpy(env_in + env_in_len, s, n);
	env_in_len += n;
}
static void vih_str(const char *s) { vih_keys(s, strlen(s)); }
/* run vi on file f; the keys are in env_in; a quit sequence follows when they run out */
static void vih_run_vi(const char *f)
{
	char *argv[] = {"vi", (char *) f, 0};
	env_in_tail = "\033:\005q!\n";	/* ^E: back to the default keymap, whatever the keys before did */
	vi_main(f ? 2 : 1, argv);
}
static void vih_run_ex(const char *f)
{
	char *argv[] = {"vi", "-s", "-e", (char *) f, 0};
	env_in_tail = "q!\n";
	vi_main(f ? 4 : 3, argv);
}
static long vih_filelen(const char *f) { int i = env_find(f); return i < 0 ? -1 : env_fs[i].len; }
static char *vih_file(const char *f) { int i = env_find(f); return i < 0 ? "" : (env_fs[i].data[env_fs[i].len] = 0, env_fs[i].data); }
#endif
