"""Job tables: which harnesses decide which property, with which bounds."""

COMMON_ASSUMPTIONS = [
    'clang-14 -O1 LLVM IR of /repo/*.c (regenerated on every run) stands for the gcc -O2 binary; counterexamples are replayed on a native ASan/UBSan (MSan for uninitialised reads) build of the same sources before being reported',
    'libc below the editor is a model (engine/env.c, engine/libc_model.c, printf family in the engine): C locale, in-memory files, no terminal ioctl, no child processes, no sockets; malloc never fails',
    'arithmetic wraps (nsw/inbounds poison not modelled); zero-length memcpy from NULL is a no-op',
    'the engine (engine/symx.py) and z3 are trusted; sampled paths are cross-checked against the native build on every run',
]

META = {}
JOBS = {}
CBMC = {}

# h and l in a right-to-left line (used by C07 and C17)
_motions_rtl = {'name': 'motions_rtl_line', 'harness': 'c07_mot.c', 'units': 'ALL', 'defs': {'NMOT': 39, 'ORDERON': 1, 'BUFSEL': 3, 'MOTMASK': '0x17ULL'},
                'expect_reach': ['end', 'asserted'], 'timeout': {'quick': 280, 'thorough': 600}, 'max_steps': 60000000, 'validate': {'quick': 4, 'thorough': 8}}

# ---------------------------------------------------------------- C16
META['C16'] = {
    'bounds': {'quick': 'all well-formed UTF-8 strings of <= 5 bytes (every scalar value in every position); regex.c decoders on every 4-byte window',
               'thorough': 'all well-formed UTF-8 strings of <= 7 bytes'},
    'outside': 'strings longer than the bound; ill-formed UTF-8 (excluded by the property)',
    'assumptions': ['input strings are well-formed UTF-8 without NUL (RFC 3629 predicate assumed before the code runs)'],
}
JOBS['C16'] = [
    {'name': 'uc_nav', 'harness': 'c16_uc.c', 'units': ['uc'],
     'defs': {'quick': {'N': 5}, 'thorough': {'N': 7}}, 'nslices': {'quick': 16, 'thorough': 32}, 'split_depth': 5},
    # the regex engine's private decoders and its stepping over the line: bracket patterns with multi-byte members
    {'name': 'regex_offsets_utf8', 'harness': 'c10_re.c', 'units': ['rset', 'regex', 'sbuf', 'uc'], 'track': 're_rec',
     'defs': {'quick': {'LL': 2, 'TSET': 1, 'MB': 1}, 'thorough': {'LL': 3, 'TSET': 1, 'MB': 1}},
     'expect_reach': ['end', 'found', 'notfound', 'agree'], 'timeout': {'quick': 280, 'thorough': 600}, 'max_steps': 5000000},
]

# ---------------------------------------------------------------- C12
META['C12'] = {
    'bounds': {'quick': 'all simple patterns ^? \\<? literal(<=2 chars) \\>? $? x all newline-terminated lines <=3 chars over {a A _ - space, U+00E9} x icase x notbol x noteol; classifier: all pattern strings <=3 bytes over 20 literal/operator characters',
               'thorough': 'literal <=3 chars, lines <=4 chars; classifier: all strings <=4 bytes'},
    'outside': 'longer literals/lines; lines not ending in a newline (excluded by the property); alphabets beyond the listed characters (bytes are only compared for equality, class membership [A-Za-z0-9_] and >127)',
    'assumptions': ['pattern and line characters come from the stated class lists'],
}
JOBS['C12'] = [
    {'name': 'lit_equiv', 'harness': 'c12_lit.c', 'units': ['rstr', 'rset', 'regex', 'sbuf', 'uc'],
     'defs': {'quick': {'PL': 2, 'LL': 3}, 'thorough': {'PL': 3, 'LL': 4}}, 'split_depth': 7,
     'nslices': {'quick': 32, 'thorough': 64}, 'expect_reach': ['end', 'found', 'notfound']},
    {'name': 'classifier', 'harness': 'c12_cls.c', 'units': ['rset', 'regex', 'sbuf', 'uc'],
     'defs': {'quick': {'PN': 3, 'LL': 3}, 'thorough': {'PN': 4, 'LL': 3}}, 'split_depth': 4,
     'nslices': {'quick': 32, 'thorough': 64}, 'expect_reach': ['end', 'literal', 'general']},
]

# ---------------------------------------------------------------- C11
META['C11'] = {
    'bounds': {'quick': 'all pattern strings <=3 bytes over the 23-character metacharacter alphabet x icase/notbol/noteol x 6 lines (ASCII, 2-, 3- and 4-byte characters), via rstr_make and regcomp; repetition templates with M,N in {0..9,63..65,126..130,256,999}; 1..3,30..34,61..67,100 nested/consecutive groups',
               'thorough': 'all strings <=4 bytes over the alphabet, and all strings <=3 bytes with one position free over 1..255; repetition templates with all M,N in 0..140'},
    'outside': 'patterns longer than 4 bytes outside the repetition/group templates; lines outside the family',
    'assumptions': ['the engine checks every load/store against object bounds: "fits the memory reserved" is decided on the real regcomp/rnode_emit code'],
}
JOBS['C11'] = [
    {'name': 'short_patterns', 'harness': 'c11_pat.c', 'units': ['rstr', 'rset', 'regex', 'sbuf', 'uc'], 'heavy': True,
     'defs': {'quick': {'PN': 3}, 'thorough': {'PN': 4}}, 'split_depth': 9, 'nslices': {'quick': 32, 'thorough': 64},
     'expect_reach': ['end', 'compiled', 'rejected', 'matched'], 'timeout': {'quick': 280, 'thorough': 600}, 'max_steps': 3000000, 'native_timeout': 5},
    {'name': 'free_byte', 'harness': 'c11_pat.c', 'units': ['rstr', 'rset', 'regex', 'sbuf', 'uc'], 'tiers': ['thorough'],
     'defs': {'PN': 3}, 'variants': [{'FREEBYTE': 0}, {'FREEBYTE': 1}, {'FREEBYTE': 2}], 'split_depth': 5, 'nslices': 16,
     'expect_reach': ['end', 'compiled'], 'timeout': 1700, 'max_steps': 3000000, 'native_timeout': 5},
    {'name': 'repetition', 'harness': 'c11_rep.c', 'units': ['rset', 'regex', 'sbuf', 'uc'],
     'defs': {'quick': {}, 'thorough': {'FULL': 140}},
     'variants': [{'TMPL': t} for t in range(9)], 'split_depth': 2, 'nslices': {'quick': 4, 'thorough': 16},
     'expect_reach': ['end'], 'timeout': {'quick': 280, 'thorough': 600}},
]

# ---------------------------------------------------------------- C04
META['C04'] = {
    'bounds': {'quick': 'line-buffer interface: all histories of K=3 operations from {edit, compound command of 2 edits, undo, redo} (a second job adds: history cleared by a load, saved, a command that edits nothing), every edit a symbolic range and a symbolic text of <=3 bytes over {a, newline}; ex level: two commands from a menu on a 4-line symbolic buffer, then u u redo',
               'thorough': 'K=4 at the interface; ex level: all ordered pairs of the command menu'},
    'outside': 'histories longer than K at the interface; filter commands (need a child process); edit texts longer than 3 bytes',
    'assumptions': ['a command boundary is a call of lbuf_modified(), as ex_command() and the vi loop make it'],
}
JOBS['C04'] = [
    {'name': 'lbuf_history_text', 'harness': 'c04_hist.c', 'units': ['lbuf', 'sbuf', 'uc'],
     'defs': {'quick': {'K': 2, 'TL': 3}, 'thorough': {'K': 3, 'TL': 2}},
     'expect_reach': ['end', 'edit', 'undo', 'undo-at-start', 'redo-at-end'], 'timeout': {'quick': 280, 'thorough': 600}},
    {'name': 'long_history', 'harness': 'c04_big.c', 'units': 'ALL', 'defs': {'quick': {'NL': 140}, 'thorough': {'NL': 300}},
     'expect_reach': ['end', 'compound', 'single'], 'max_steps': 400000000},
    {'name': 'ex_steps', 'harness': 'c04_ex.c', 'units': 'ALL',
     'defs': {'quick': {'PAIRS_DIAGONAL': 1}, 'thorough': {}},
     'expect_reach': ['end', 'B-changed', 'both-changed'], 'timeout': {'quick': 280, 'thorough': 600}},
    {'name': 'lbuf_history_deep', 'harness': 'c04_hist.c', 'units': ['lbuf', 'sbuf', 'uc'],
     'defs': {'quick': {'K': 3, 'SMALL': 1, 'NOPS': 7}, 'thorough': {'K': 4, 'SMALL': 1, 'NOPS': 7}},
     'expect_reach': ['end', 'edit', 'undo', 'redo', 'undo-at-start', 'redo-at-end', 'history-cleared', 'noop'], 'timeout': {'quick': 280, 'thorough': 600}},
]

# ---------------------------------------------------------------- C01
META['C01'] = {
    'bounds': {'quick': 'all files of <=4 bytes over 1..255 x all read chunkings x all ranges x all previous target lengths 0..7/absent x first write() of the target complete or cut short (1 byte, half, all but one, 1 byte twice in a row); up to 2 lines with lengths from {0,1,1022..1026,2047..2049,4093..4099} (symbolic first/last/chunk-edge bytes), with/without final newline, target absent/shorter/longer; line counts {510..513,1023..1025}; sbuf growth step for all sizes < 2^30 (CBMC); the files written by :xa / :xa! / autowrite over two buffers of different lengths',
               'thorough': 'files of <=6 bytes; 3 boundary-length lines with symbolic ranges'},
    'outside': 'files >= 2^30 bytes; line lengths between the windows (the code has no constant there); NUL bytes (excluded by the property); ftruncate/stat failure',
    'assumptions': ['read() may return any count from 1 to the request (symbolic chunk size, constant per run)'],
}
_write_all_c01 = {'name': 'write_all_buffers', 'harness': 'c03_xa.c', 'units': 'ALL', 'defs': {},
                  'expect_reach': ['end', 'written', 'left'], 'timeout': 280}
JOBS['C01'] = [
    {'name': 'roundtrip_bytes', 'harness': 'c01_rt.c', 'units': ['lbuf', 'sbuf', 'uc'],
     'defs': {'quick': {'MODE': 0, 'N': 4}, 'thorough': {'MODE': 0, 'N': 6}}, 'expect_reach': ['end', 'whole']},
    {'name': 'boundary_lengths', 'harness': 'c01_rt.c', 'units': ['lbuf', 'sbuf', 'uc'], 'heavy': True,
     'defs': {'quick': {'MODE': 1, 'NL': 2, 'RANGE': 0}, 'thorough': {'MODE': 1, 'NL': 3, 'RANGE': 1}}, 'expect_reach': ['end', 'whole'],
     'timeout': {'quick': 280, 'thorough': 600}},
    {'name': 'line_table_growth', 'harness': 'c01_rt.c', 'units': ['lbuf', 'sbuf', 'uc'],
     'defs': {'MODE': 2}, 'expect_reach': ['end', 'whole'], 'max_steps': 200000000},
    _write_all_c01,
]

# ---------------------------------------------------------------- C03
META['C03'] = {
    'bounds': {'quick': 'commands {w, w!, w o, w! o, wq, x, 1,2w! o, w p} x other file exists or not x edited file newer on disk or not x buffer shapes {empty file+1 line, 2, 4 short lines, three 3000-byte lines (three batches)} x optional earlier write to another path x one fault at every position 0..7 of the open/write/close sequence x {error return with errno EIO or EINTR, short count of 1 byte / half / all but one}; all two-fault schedules for {w, wq} on the one-line and three-batch shapes; :xa, :xa! and :q with autowrite over two buffers (second file shorter / equal / longer, each modified or not, one of the files rewritten by somebody else or not)',
               'thorough': 'adds the two-5000-byte-line shape (direct writes) and all two-fault schedules'},
    'outside': 'ftruncate and stat failures (not in the property); write() returning 0 for a non-empty request; allocation failure; faults during :xa',
    'assumptions': ['a failed close() still releases the descriptor', 'the partial file left by a failed write is newer than the recorded mtime, so the retry uses w!'],
    'level': 'Fault enumeration decided symbolically: every position of the system-call sequence of a write x every fault kind, on the real ec_write/lbuf_save/lbuf_wr/write_fully code, with the overwrite guards for all combinations of target existence, identity and modification time.',
}
JOBS['C03'] = [
    {'name': 'write_faults', 'harness': 'c03_wr.c', 'units': 'ALL',
     'defs': {'quick': {'NF': 1, 'NSHAPES': 5}, 'thorough': {'NF': 2, 'NSHAPES': 5}},
     'expect_reach': ['end', 'foreign-guard', 'newer-guard', 'fault', 'shorts-only', 'clean'], 'timeout': {'quick': 280, 'thorough': 600}},
    {'name': 'two_faults', 'harness': 'c03_wr.c', 'units': 'ALL', 'tiers': ['quick'],
     'defs': {'NF': 2, 'NSHAPES': 4, 'CMDMASK': '0x11', 'SHAPEMASK': '0xa', 'KINDS': 5},
     'expect_reach': ['end', 'fault', 'shorts-only'], 'timeout': 280},
    {'name': 'write_all', 'harness': 'c03_xa.c', 'units': 'ALL', 'defs': {},
     'expect_reach': ['end', 'newer-kept', 'written', 'left', 'stayed'], 'timeout': 280},
]

# ---------------------------------------------------------------- C02 / C20
_bufs_units = [u for u in 'vi lbuf mot sbuf ren dir syn reg led uc term rset rstr regex cmd tag conf'.split()]
META['C02'] = {
    'bounds': {'quick': 'all histories of K=2 commands from a 16-entry menu (3 edits whose effect depends on symbolic text, u, redo, w, w! other, 1w, 1,$w, e!, e fN, e #, b N, b +, b -, line move; N symbolic) followed by q, over 3 files (C20 also: with all 16 table slots open, N in {1,2,15,16}, the most-recently-used order of the table equal to the numbering or disturbed by a jump to buffer 1 and back); after every command every open buffer is inspected',
               'thorough': 'K=3'},
    'outside': 'autowrite/writeany set (excluded by the property); more than 4 open buffers in this harness (the 16-slot table is exercised in C20 table job); vi-mode ZZ (same ex command)',
    'assumptions': ['dirty is defined against the actual bytes of the file in the environment, which only the editor writes'],
}
META['C20'] = dict(META['C02'])
JOBS['C02'] = [
    {'name': 'buffer_histories', 'harness': 'c02_bufs.c', 'units': _bufs_units,
     'defs': {'quick': {'K': 2, 'NFILES': 3}, 'thorough': {'K': 3, 'NFILES': 3}},
     'expect_reach': ['end', 'quit-refused', 'quit-allowed', 'switch-refused', 'switched', 'revisited'], 'timeout': {'quick': 280, 'thorough': 600}},
]
JOBS['C02'].append(
    {'name': 'unnamed_first_write', 'harness': 'c02_unnamed.c', 'units': 'ALL', 'defs': {}, 'expect_reach': ['end', 'partial', 'whole']})
JOBS['C02'].append(
    {'name': 'full_table', 'harness': 'c02_bufs.c', 'units': _bufs_units,
     'defs': {'quick': {'K': 1, 'NFILES': 17, 'PREOPEN': 16}, 'thorough': {'K': 2, 'NFILES': 17, 'PREOPEN': 16}},
     'expect_reach': ['end', 'table-full', 'quit-refused'], 'timeout': {'quick': 280, 'thorough': 600}})
JOBS['C20'] = [
    {'name': 'buffer_histories', 'harness': 'c02_bufs.c', 'units': _bufs_units,
     'defs': {'quick': {'K': 2, 'NFILES': 3}, 'thorough': {'K': 3, 'NFILES': 3}},
     'expect_reach': ['end', 'quit-refused', 'quit-allowed', 'switch-refused', 'switched', 'revisited'], 'timeout': {'quick': 280, 'thorough': 600}},
    {'name': 'full_table', 'harness': 'c02_bufs.c', 'units': _bufs_units,
     'defs': {'quick': {'K': 2, 'NFILES': 17, 'PREOPEN': 16}, 'thorough': {'K': 3, 'NFILES': 17, 'PREOPEN': 16}},
     'expect_reach': ['end', 'table-full', 'hopped', 'switched', 'revisited', 'deleted', 'evicted'], 'timeout': {'quick': 280, 'thorough': 600}},
]

# ---------------------------------------------------------------- C10
META['C10'] = {
    'bounds': {'quick': '95 pattern templates (literals, ., brackets with ranges/negation/classes and brackets holding ] ( [ or a final backslash, ^ $ \\< \\>, groups, |, * + ? {m,n}, nesting depth 2, up to 4 groups) with symbolic placeholder characters over {a A 1 U+00E9} x all newline-terminated lines of <=2 characters over that alphabet plus space x icase x notbol x noteol; the literal and bracket templates again with placeholders over {a U+00E9 U+0628 U+4E2D} and lines over {a 1 U+00E9 U+0628 U+0434 U+4E2D U+1F600} (every encoded length, lead bytes c3 d0 d8 e4 f0); 8 templates with open-ended bounds {2,} on lines of <=3 characters',
               'thorough': 'lines of <=3 characters, alphabet {a b A 1 _ U+00E9 U+00C9 space}; open-ended bounds on lines of <=4 characters'},
    'outside': 'lines longer than the bound; patterns outside the templates (C11 covers their safety); completeness is asserted only on paths where fewer than 256 re_rec frames were live (engine-side observation instead of a source hook)',
    'assumptions': ['reference semantics: leftmost start, greedy quantifiers, left-biased alternation, captures of the last iteration (harness/ref_re.h); case folding of ASCII letters only, as in the C locale'],
}
JOBS['C10'] = [
    {'name': 'templates', 'harness': 'c10_re.c', 'units': ['rset', 'regex', 'sbuf', 'uc'], 'track': 're_rec',
     'defs': {'quick': {'LL': 2}, 'thorough': {'LL': 3, 'WIDE': 1}}, 'variants': [{'TSET': i} for i in range(5)],
     'expect_reach': ['end', 'found', 'notfound', 'agree'], 'timeout': {'quick': 280, 'thorough': 600}, 'max_steps': 5000000},
    {'name': 'multibyte', 'harness': 'c10_re.c', 'units': ['rset', 'regex', 'sbuf', 'uc'], 'track': 're_rec',
     'defs': {'quick': {'LL': 2, 'MB': 1}, 'thorough': {'LL': 3, 'MB': 1}}, 'variants': [{'TSET': 0}, {'TSET': 1}],
     'expect_reach': ['end', 'found', 'notfound', 'agree'], 'timeout': {'quick': 280, 'thorough': 600}, 'max_steps': 5000000},
    {'name': 'open_bounds', 'harness': 'c10_re.c', 'units': ['rset', 'regex', 'sbuf', 'uc'], 'track': 're_rec',
     'defs': {'quick': {'LL': 3, 'TSET': 6}, 'thorough': {'LL': 4, 'TSET': 6}},
     'expect_reach': ['end', 'found', 'notfound', 'agree'], 'timeout': {'quick': 280, 'thorough': 600}, 'max_steps': 5000000},
    {'name': 'nullable_loops', 'harness': 'c10_re.c', 'units': ['rset', 'regex', 'sbuf', 'uc'], 'track': 're_rec', 'tiers': ['thorough'],
     'defs': {'LL': 1, 'TSET': 5},
     'expect_reach': ['end', 'found', 'notfound'], 'timeout': {'quick': 280, 'thorough': 600}, 'max_steps': 200000000, 'native_timeout': 60},
]

# ---------------------------------------------------------------- C14
META['C14'] = {
    'bounds': {'quick': '28 pattern templates (literal and operator patterns, anchors, an anchored alternative next to a free one, a bracket ending in a backslash, word boundaries, empty-matching, up to 2 groups) with symbolic placeholder characters over {a A 1 U+00E9} x replacement of 2 symbolic pieces (literal, \\0..\\3, escaped character) x g on/off x ignorecase on/off x target line of <=2 characters over that alphabet plus space, inside a 3-line buffer',
               'thorough': 'target line of <=3 characters, 3 replacement pieces'},
    'outside': 'longer lines and replacements; patterns outside the templates; the remembered-pattern form s//rep/ (second job)',
    'assumptions': ['reference semantics of the scan: the original line, left to right, non-overlapping, one character forward after an empty match; judged in whole-line context (harness/ref_re.h)'],
}
JOBS['C14'] = [
    {'name': 'substitute', 'harness': 'c14_sub.c', 'units': 'ALL', 'heavy': True,
     'defs': {'quick': {'LL': 2, 'NP': 2}, 'thorough': {'LL': 3, 'NP': 2, 'SYMIC': 1, 'MAXREF': 3}}, 'variants': [{'TSET': 0}, {'TSET': 1}, {'TSET': 2}],
     'expect_reach': ['end', 'match'], 'timeout': {'quick': 280, 'thorough': 600}},
]

# ---------------------------------------------------------------- C13
META['C13'] = {
    'bounds': {'quick': '13 pattern templates (literals, anchors, word boundaries, empty-matching, group, alternation) with symbolic placeholder characters over {a b U+00E9} x buffers of 2 lines of <=2 characters (<=3 for the templates x, xy, x*) over that alphabet plus space x every cursor position x both directions (lbuf_search); vi level: all sequences of 2 commands from {/ab ?ab n N / ? 2n 2N 2/ab, a pattern ending in an escaped backslash, /ab/+1 (line offset, kept by n and N), ^A} from every cursor position of a 5-line buffer with 8 occurrences',
               'thorough': '3 lines, ignorecase symbolic'},
    'outside': 'longer lines/buffers; patterns outside the templates; ^A and the escaped-backslash pattern only as the last command of a sequence (they change the pattern the occurrence model is built for)',
    'assumptions': ['a match may begin on the line terminator (the cursor is clamped afterwards by the vi loop); successive matches are enumerated left to right until the scan reaches the terminator'],
}
JOBS['C13'] = [
    {'name': 'lbuf_search', 'harness': 'c13_search.c', 'units': ['lbuf', 'mot', 'sbuf', 'uc', 'rstr', 'rset', 'regex'],
     'defs': {'quick': {'LL': 2, 'NLN': 2}, 'thorough': {'LL': 3, 'NLN': 2, 'SYMIC': 1}},
     'expect_reach': ['end', 'found', 'notfound'], 'timeout': {'quick': 280, 'thorough': 600}},
    {'name': 'vi_search_sequences', 'harness': 'c13_vi.c', 'units': 'ALL', 'defs': {'quick': {'K': 2}, 'thorough': {'K': 3}}, 'expect_reach': ['end'],
     'timeout': {'quick': 280, 'thorough': 600}, 'max_steps': 60000000, 'validate': {'quick': 6, 'thorough': 12}},
    {'name': 'lbuf_search_3', 'harness': 'c13_search.c', 'units': ['lbuf', 'mot', 'sbuf', 'uc', 'rstr', 'rset', 'regex'], 'tiers': ['quick'], 'heavy': True,
     'defs': {'LL': 3, 'NLN': 2, 'TMASK': '0x13'},
     'expect_reach': ['end', 'found', 'notfound'], 'timeout': 280},
]

# ---------------------------------------------------------------- C15
META['C15'] = {
    'bounds': {'quick': 'buffers of 5 lines each symbolically matching or not x all ranges a,b x g, v and g! x 16 command lists (d, s/a/b/, s/^/V/, -1d, +1d, $d, a+text, d|pu, +1s/b/a/, +1s/a/b/, nested g with and without a range, s|-1d, s|$d, a list whose first command fails on some lines, +1s that splits the next line in two); then u; a 509-line buffer whose line table grows (512) while a global adds lines',
               'thorough': '6 lines; 1021-line buffer (table growth at 1024)'},
    'outside': 'command lists outside the menu; buffers above the bound (the line-table growth during a global is covered by C01/C05 only for plain edits)',
    'assumptions': ['a command that fails inside the list aborts the global (model: stop); the model is written from the property text over line identities'],
}
JOBS['C15'] = [
    {'name': 'global', 'harness': 'c15_glob.c', 'units': 'ALL',
     'defs': {'quick': {'NL': 5}, 'thorough': {'NL': 6}},
     'expect_reach': ['end', 'visit', 'abort', 'changed'], 'timeout': {'quick': 280, 'thorough': 600}},
    {'name': 'global_table_growth', 'harness': 'c15_glob.c', 'units': 'ALL',
     'defs': {'quick': {'NL': 509, 'BIG': 1}, 'thorough': {'NL': 1021, 'BIG': 1}},
     'expect_reach': ['end', 'visit', 'changed'], 'timeout': {'quick': 280, 'thorough': 600}, 'max_steps': 400000000},
]

# ---------------------------------------------------------------- C06
META['C06'] = {
    'bounds': {'quick': 'buffers of 3 distinct lines x every current line x marks a,b on every line or unset x 21 address forms (N . $ mark +N -N .+N $-N /pat/ ?pat? N,M N;+M % mark,mark N,$ .,+N 0 /pat/+M mark+M 1,?pat?+M) with all digit values 0..4 x 13 commands (d, y x, y X (append), pu x, p, =, ka, a / i / c each with a text block of 2, 1 or 0 lines, r file, rs y, @ z)',
               'thorough': '4 lines, digits 0..5'},
    'outside': '! filters and :r !cmd (need a child process); :so, tags; bare + and - (neatvi reads them as +0); default address of =; scripts of more than one command (the state before the command is arbitrary instead)',
    'assumptions': ['reference: POSIX ex addressing without wrap-around search; after d the current line is the line after the deleted ones or the last line'],
}
JOBS['C06'] = [
    {'name': 'line_commands', 'harness': 'c06_ex.c', 'units': 'ALL',
     'defs': {'quick': {'NL': 3}, 'thorough': {'NL': 4}},
     'expect_reach': ['end', 'applied', 'rejected'], 'timeout': {'quick': 280, 'thorough': 600}},
]

# ---------------------------------------------------------------- C17 / C18
_ren_units = ['ren', 'uc', 'dir', 'rset', 'regex', 'sbuf', 'conf']
META['C17'] = {
    'bounds': {'quick': 'all lines of <=3 characters (order 0) or <=2 characters (order 1, 2 x td -2..2 x lim 1/256) over {printable ASCII, TAB, double-width, zero-width, ZWNJ placeholder, Arabic letter, 4-byte} + newline (tiling, round trip, neighbours, cursor clamping); width class of every code point U+0001..U+10FFFF against a linear scan of the tables',
               'thorough': 'lines of <=4 (order 0) / <=3 (reordering) characters'},
    'outside': 'lines longer than the bound; the h l | commands of the real binary (C07 jobs)',
    'assumptions': ['class widths: TAB to the next multiple of 8, U+4E2D two cells, every other listed character one cell (zero-width characters are drawn as one-cell placeholders)'],
}
JOBS['C17'] = [
    {'name': 'layout', 'harness': 'c17_ren.c', 'units': _ren_units, 'defs': {'quick': {'LL': 3, 'ORDER': 0}, 'thorough': {'LL': 4, 'ORDER': 0}},
     'expect_reach': ['end'], 'timeout': {'quick': 280, 'thorough': 600}},
    {'name': 'layout_reorder', 'harness': 'c17_ren.c', 'units': _ren_units, 'defs': {'quick': {'LL': 2}, 'thorough': {'LL': 3}},
     'variants': [{'ORDER': 1}, {'ORDER': 2}], 'expect_reach': ['end', 'reorder-path'], 'timeout': {'quick': 280, 'thorough': 600}},
    {'name': 'layout_ltr_runs_in_rtl', 'harness': 'c17_ren.c', 'units': _ren_units, 'defs': {'quick': {'LL': 4, 'ORDER': 2, 'RTLCTX': 1}, 'thorough': {'LL': 5, 'ORDER': 2, 'RTLCTX': 1}},
     'expect_reach': ['end', 'reorder-path'], 'timeout': {'quick': 280, 'thorough': 600}},
    _motions_rtl,	# h and l in a right-to-left line: the character displayed to the left / right (the harness of C07)
    {'name': 'width_tables', 'harness': 'c17_tab.c', 'units': [], 'defs': {}, 'expect_reach': ['end'], 'timeout': {'quick': 280, 'thorough': 600}},
]
META['C18'] = {
    'bounds': {'quick': 'all lines of <=4 characters over {Latin, digit, blank, -, Arabic BEH, Arabic ALEF, ZWNJ} (and, permutation only, with the mark characters $ \\\\ { } [ ] *) x td -2..2: permutation, newline last, runs reversed in place; a nested mark \\*[...] inside a right-to-left line and in front of a right-to-left word in a left-to-right line; columns derived from the permutation for lines of <=4 characters in right-to-left context (Latin runs with TAB / wide characters) tile the line; shaping: previous/current/next over the whole joining-letter table or a non-letter or nothing, 0..2 diacritics on either side',
               'thorough': 'lines of <=5 characters'},
    'outside': 'longer lines; the exact effect of the configured mark patterns (only the permutation property is asserted for lines containing mark characters)',
    'assumptions': ['base direction: option td beyond +-1, else the first character, else the sign of td'],
}
JOBS['C18'] = [
    {'name': 'reorder', 'harness': 'c18_dir.c', 'units': _ren_units, 'defs': {'quick': {'LL': 4}, 'thorough': {'LL': 5}},
     'expect_reach': ['end', 'reversed'], 'timeout': {'quick': 280, 'thorough': 600}},
    {'name': 'reorder_marks', 'harness': 'c18_dir.c', 'units': _ren_units, 'defs': {'quick': {'LL': 4, 'MARKS': 1}, 'thorough': {'LL': 5, 'MARKS': 1}},
     'heavy': True, 'expect_reach': ['end', 'marks'], 'timeout': {'quick': 280, 'thorough': 600}},
    {'name': 'reorder_nested_mark', 'harness': 'c18_dir.c', 'units': _ren_units, 'defs': {'NESTED': 1},
     'expect_reach': ['end', 'nested', 'nested-ltr'], 'timeout': {'quick': 280, 'thorough': 600}},
    # the columns derived from the permutation (ren_position_reorder: inverse permutation, prefix sums of widths) tile the line:
    # Latin runs holding a TAB or a wide character inside a right-to-left line (the harness of C17)
    {'name': 'positions_of_reordered_runs', 'harness': 'c17_ren.c', 'units': _ren_units,
     'defs': {'quick': {'LL': 4, 'ORDER': 2, 'RTLCTX': 1}, 'thorough': {'LL': 5, 'ORDER': 2, 'RTLCTX': 1}},
     'expect_reach': ['end', 'reorder-path'], 'timeout': {'quick': 280, 'thorough': 600}},
    {'name': 'shaping', 'harness': 'c18_shape.c', 'units': [], 'defs': {},
     'expect_reach': ['end', 'medial', 'final', 'initial', 'isolated', 'nonletter'], 'timeout': {'quick': 280, 'thorough': 600}},
]

# ---------------------------------------------------------------- C05
META['C05'] = {
    'bounds': {'quick': 'vi: every stream of 2 keys (bytes 1..127) on the 3-line buffer with wide/combining/RTL/tab characters in a 6x20 window, and every single key on 4 buffers x window sizes {2x2, 3x5, 6x20, 25x80} x 5 option vectors; ex: every command line of 21 prefixes + 2 free bytes on that buffer, 1 free byte on the others; all ordered pairs of 54 command lines on an empty and on a 3-line buffer; command lines of length 505..516 of 12 filler kinds; (all other checks also run with the same memory/uninitialised/budget detection on every path)',
               'thorough': 'vi: 2 keys on all buffers; 3 keys from the 40 most common command keys; ex: 3 free bytes'},
    'outside': 'streams longer than the bound (the per-command structure is the argument for more, not a solver result); keys >= 0x80 outside typed text; real terminals, signals, child processes, sockets (the environment model refuses them; only the failure paths run); memory exhaustion',
    'assumptions': ['when the given keys run out the input continues with ESC :q! (vi) or q! (ex) so that every path is given its quit command', 'instruction budget per path 40 M (vi) / 20 M (ex) IR steps: more is reported as a possible hang'],
    'level': 'Bounded, solver-decided memory safety and termination: every path of the real main() over all streams within the bound runs under the object-bounds, liveness, initialisation and budget checks.',
}
_c05_cfg = [(b, w, i) for b in (0, 1, 2, 3) for (w, i) in ((0, 0), (1, 1), (2, 2), (3, 3), (0, 4))]
JOBS['C05'] = [
    {'name': 'vi_keys2', 'harness': 'c05_vi.c', 'units': 'ALL', 'defs': {'NK': 2, 'BUF': 2, 'WIN': 0, 'INIT': 0}, 'heavy': True,
     'expect_reach': ['end'], 'timeout': {'quick': 280, 'thorough': 600}, 'max_steps': 40000000, 'validate': {'quick': 6, 'thorough': 12}},
    {'name': 'vi_keys1', 'harness': 'c05_vi.c', 'units': 'ALL', 'defs': {'NK': 1},
     'variants': [{'BUF': b, 'WIN': w, 'INIT': i} for (b, w, i) in _c05_cfg],
     'expect_reach': ['end'], 'timeout': {'quick': 280, 'thorough': 600}, 'max_steps': 40000000, 'validate': {'quick': 2, 'thorough': 4}},
    {'name': 'ex_lines', 'harness': 'c05_ex.c', 'units': 'ALL', 'defs': {'quick': {'NB': 2, 'BUF': 2}, 'thorough': {'NB': 3, 'BUF': 2}},
     'expect_reach': ['end'], 'timeout': {'quick': 280, 'thorough': 600}},
    {'name': 'vi_prompt_history', 'harness': 'c05_hist.c', 'units': 'ALL', 'defs': {'quick': {}, 'thorough': {'LEN_LO': 50, 'LEN_HI': 70}}, 'expect_reach': ['end'], 'max_steps': 40000000,
     'timeout': {'quick': 280, 'thorough': 600}, 'validate': {'quick': 4, 'thorough': 8}},
    {'name': 'ex_pairs', 'harness': 'c05_ex.c', 'units': 'ALL', 'defs': {'MODE': 2, 'BUF': 1},
     'variants': [{'BUF': 0}, {'BUF': 2}], 'expect_reach': ['end'], 'timeout': {'quick': 280, 'thorough': 600}},
    {'name': 'ex_limit', 'harness': 'c05_ex.c', 'units': 'ALL', 'defs': {'MODE': 1, 'BUF': 1},
     'expect_reach': ['end'], 'timeout': {'quick': 280, 'thorough': 600}},
]

# ---------------------------------------------------------------- C19
META['C19'] = {
    'bounds': {'quick': 'all sequences of 2 commands from a 47-entry menu (j k G H L ^E ^Y ^D ^U ^F ^B z<CR> z. z- dd x o O p P J u ^R :d :1,3d :$ $ 0 3G 2dd yyP 5j w A :2 ^E^E Hdk Hck Ld2j Hjd2k, multi-line inserts whose first line runs past the right edge, $j $k 30| j$ leaving a remembered column beyond a short line) on buffers of 3 and 12 lines (and 12 lines with one long line) in a 6x20 window, and of 1 command on an empty buffer and in a 4x10 window; 2 commands of 20 (j k $ 0 x 25l 12l h dd u p yyP G H ^E D 30| 5| jj 3x) on a buffer with right-to-left lines of 32 and 16 Arabic letters (shaping off) in the same window; a split screen (12 rows, two windows on a 20-line buffer, starting in the upper or the lower one) with 2 commands of 20 (j k ^E ^Y ^D ^U dd o p G H L ^Wj ^Wk ^Wx ^Wo ^Wc u 5j z<CR>), the active window compared; highlighting off',
               'thorough': 'sequences of 3 commands on the 12-line buffers'},
    'outside': 'mixed-direction lines and shaped letters on screen (right-to-left lines are pure runs of two-byte letters); highlighting on (the emulator ignores attributes; only A==B is meaningful there); the inactive window of a split screen (it is redrawn when it becomes active); lines with tabs or wide characters (the cell oracle is ASCII)',
    'assumptions': ['the terminal is the VT100 subset of harness/vt.h (CUP, CUF/CUB, EL, IL, DL, DECSTBM, SGR ignored, CR, LF)', 'the editor state is observed between two commands through the environment hook that fires when the next key is read'],
}
JOBS['C19'] = [
    {'name': 'screen', 'harness': 'c19_screen.c', 'units': 'ALL', 'defs': {'quick': {'N': 2}, 'thorough': {'N': 3}},
     'variants': [{'BUF': 1}, {'BUF': 2}, {'BUF': 3}], 'expect_reach': ['end'], 'timeout': {'quick': 280, 'thorough': 600}, 'max_steps': 60000000,
     'validate': {'quick': 6, 'thorough': 12}},
    {'name': 'screen_small', 'harness': 'c19_screen.c', 'units': 'ALL', 'defs': {'N': 1},
     'variants': [{'BUF': 0}, {'BUF': 2, 'ROWS': 4, 'COLS': 10}, {'BUF': 3, 'ROWS': 4, 'COLS': 10}], 'expect_reach': ['end'],
     'timeout': {'quick': 280, 'thorough': 600}, 'max_steps': 60000000, 'validate': {'quick': 4, 'thorough': 8}},
    {'name': 'screen_split', 'harness': 'c19_screen.c', 'units': 'ALL', 'defs': {'quick': {'N': 2}, 'thorough': {'N': 3}},
     'variants': [{'BUF': 5, 'ROWS': 12}], 'expect_reach': ['end'],
     'timeout': {'quick': 280, 'thorough': 600}, 'max_steps': 60000000, 'validate': {'quick': 4, 'thorough': 8}},
    {'name': 'screen_rtl', 'harness': 'c19_screen.c', 'units': 'ALL', 'defs': {'quick': {'N': 2}, 'thorough': {'N': 3}},
     'variants': [{'BUF': 4}], 'expect_reach': ['end'],
     'timeout': {'quick': 280, 'thorough': 600}, 'max_steps': 60000000, 'validate': {'quick': 4, 'thorough': 8}},
]

# ---------------------------------------------------------------- C09
META['C09'] = {
    'bounds': {'quick': 'mechanism: 4 symbolic typed keys, two nested pushes of 2 symbolic keys, pushes of 10000 bytes into the 4096-byte queue; pushes of {1,2,3,40,600,1024} keys after 1/8/15 keys were read, with {2,9,4094..4097,4200,6000} bytes waiting on the terminal and read(0) handing over one byte or all that is waiting; relation: one change command from a 20-entry menu with symbolic inserted text (ASCII and 2-byte), symbolic count/register prefix, then . or N. (N<=3) versus retyping; a register executed with @ versus typing its contents (including a . inside the macro)',
               'thorough': 'two preceding commands before the change'},
    'outside': 'recorded commands >= 4 KiB (excluded by the property); ^A completion; filters',
    'assumptions': ['two runs of the real main() are compared inside one path (symx_isolated); equality of the written file, of the cursor (marker) and of the unnamed register (put at the end)'],
}
JOBS['C09'] = [
    {'name': 'push_queue', 'harness': 'c09_push.c', 'units': ['term', 'sbuf'], 'defs': {}, 'expect_reach': ['end', 'overflow-checked']},
    {'name': 'push_with_input_waiting', 'harness': 'c09_ahead.c', 'units': ['term', 'sbuf'], 'defs': {}, 'expect_reach': ['end']},
    {'name': 'repeat_vs_retype', 'harness': 'c09_rel.c', 'units': 'ALL', 'defs': {'quick': {'MODE': 0}, 'thorough': {'MODE': 0, 'NCNT': 3, 'TXTN': 2, 'JUNKALL': 1}}, 'expect_reach': ['end'], 'heavy': True,
     'timeout': {'quick': 280, 'thorough': 600}, 'max_steps': 80000000, 'validate': {'quick': 6, 'thorough': 12}},
    {'name': 'repeat_long_insert', 'harness': 'c09_rel.c', 'units': 'ALL', 'defs': {'MODE': 2}, 'expect_reach': ['end'],
     'timeout': {'quick': 280, 'thorough': 600}, 'max_steps': 400000000, 'validate': {'quick': 2, 'thorough': 4}, 'native_timeout': 60},
    {'name': 'execute_vs_type', 'harness': 'c09_rel.c', 'units': 'ALL', 'defs': {'MODE': 1}, 'expect_reach': ['end'],
     'timeout': {'quick': 280, 'thorough': 600}, 'max_steps': 80000000, 'validate': {'quick': 6, 'thorough': 12}},
]

# ---------------------------------------------------------------- C08
META['C08'] = {
    'bounds': {'quick': 'a 4-line buffer (blanks, brackets, 2-byte characters, an empty and an indented line) x start positions rows 1..4 x columns {1,2,3,5,8}: 20 pairs of equivalent key sequences (x/d<space> X/dh D/d$ C/c$ s/c<space> S/cc Y/yy, named register against unnamed for dw de db dj d0 dfx yw, insert-mode ^H ^W ^U against typing the surviving text, with counts and symbolic typed characters); d<m> against y<m>P for 28 motions (w b e W B E $ 0 ^ l h j k G fx tx Fw Tw dd 2w 3l % } { + - 1G yy); numbered registers, appending register, autoindent; the region of d<motion> for 25 motions against the motion reference of C07 on three fixed buffers (line-wise, inclusive, exclusive; failing searches change nothing)',
               'thorough': 'same with the first two characters of line 2 symbolic (ASCII letter/blank/bracket, 2-byte, tab)'},
    'outside': 'the region of each motion itself is only constrained through these relations and through C07; ! filter; ^K digraphs, keymaps; ^T ^D; sequences of more than one command',
    'assumptions': ['runs of the real main() compared inside one path (symx_isolated); the cursor is observed by a marker typed at the end, the unnamed register by a put at the end of the buffer'],
}
JOBS['C08'] = [
    {'name': 'equivalent_keys', 'harness': 'c08_rel.c', 'units': 'ALL', 'defs': {'quick': {'MODE': 0}, 'thorough': {'MODE': 0, 'SYMBUF': 1}}, 'expect_reach': ['end'], 'heavy': True,
     'timeout': {'quick': 420, 'thorough': 600}, 'max_steps': 80000000, 'validate': {'quick': 6, 'thorough': 12}},
    {'name': 'delete_vs_yank_put', 'harness': 'c08_rel.c', 'units': 'ALL', 'defs': {'quick': {'MODE': 1}, 'thorough': {'MODE': 1, 'SYMBUF': 1}}, 'expect_reach': ['end', 'removed'], 'heavy': True,
     'timeout': {'quick': 280, 'thorough': 600}, 'max_steps': 80000000, 'validate': {'quick': 6, 'thorough': 12}},
    {'name': 'delete_regions', 'harness': 'c07_mot.c', 'units': 'ALL', 'defs': {'quick': {'NMOT': 39, 'OPER': 1}, 'thorough': {'LL': 2, 'NMOT': 39, 'SYMTEXT': 1, 'NCNT': 3, 'OPER': 1}}, 'heavy': True,
     'expect_reach': ['end', 'asserted', 'failed-motion'], 'timeout': {'quick': 290, 'thorough': 600}, 'max_steps': 60000000, 'validate': {'quick': 8, 'thorough': 16}},
    {'name': 'registers_autoindent', 'harness': 'c08_rel.c', 'units': 'ALL', 'defs': {'MODE': 2}, 'expect_reach': ['end'],
     'timeout': {'quick': 280, 'thorough': 600}, 'max_steps': 80000000, 'validate': {'quick': 4, 'thorough': 8}},
]

# ---------------------------------------------------------------- C07
META['C07'] = {
    'bounds': {'quick': 'three fixed 3-line buffers (word characters, punctuation, blanks, TAB, 2-byte and double-width characters, empty lines) x every start position x counts {none,2} x 39 motions and short motion sequences (h l 0 ^ $ | j k G + - _ fa Fa ta Ta f. t. w b e W B E, f/t/F/T followed by ; or ,, f with a 2-byte target, % { } H M L, N| followed by j/k for the remembered column)',
               'thorough': 'buffers of two lines of <=2 symbolic characters (word, punctuation, blank, TAB, 2-byte, double-width) plus a fixed line, counts {none,2,3}'},
    'outside': 'section motions [[ ]]; right-to-left lines (h l there are covered by C17); word motions whose target lies behind a blank-only line, and e/E across an empty line (the reference leaves them open); counts that overrun the buffer are taken to stop at the first/last line; % { } H M L are checked for text-unchanged / cursor-valid only',
    'assumptions': ['the cursor is observed through a marker typed at it and read from the written file'],
}
JOBS['C07'] = [
    # the same with the order option on (multi-byte lines then take the reordering path of ren_position): column motions on the buffer with a wide character and a tab
    {'name': 'motions_order_on', 'harness': 'c07_mot.c', 'units': 'ALL', 'defs': {'NMOT': 39, 'ORDERON': 1, 'BUFSEL': 1, 'MOTMASK': '0x70000000f3ULL'},
     'expect_reach': ['end', 'asserted'], 'timeout': {'quick': 290, 'thorough': 600}, 'max_steps': 60000000, 'validate': {'quick': 4, 'thorough': 8}},
    _motions_rtl,
    {'name': 'motions', 'harness': 'c07_mot.c', 'units': 'ALL', 'defs': {'quick': {'NMOT': 39}, 'thorough': {'LL': 2, 'NMOT': 39, 'SYMTEXT': 1, 'NCNT': 3}}, 'heavy': True,
     'expect_reach': ['end', 'asserted'], 'timeout': {'quick': 290, 'thorough': 600}, 'max_steps': 60000000, 'validate': {'quick': 8, 'thorough': 16}},
]

# ---------------------------------------------------------------- CBMC cross-checks on leaf kernels (C source, SAT back end)
CBMC['C16'] = [{'name': 'uc_decoders', 'harness': 'cbmc/cb_uc.c', 'units': ['uc'], 'function': 'cb_uc',
                'defs': {'quick': {'N': 5}, 'thorough': {'N': 6}}, 'unwind': {'quick': 7, 'thorough': 8}, 'timeout': {'quick': 250, 'thorough': 600}}]
CBMC['C17'] = [{'name': 'range_table_bisection', 'harness': 'cbmc/cb_find.c', 'units': [], 'function': 'cb_find',
                'defs': {}, 'unwind': 400, 'tiers': ['thorough'], 'timeout': {'quick': 250, 'thorough': 600}}]
CBMC['C01'] = [{'name': 'sbuf_capacity_step', 'harness': 'cbmc/cb_sbuf.c', 'units': [], 'function': 'cb_sbuf',
                'defs': {}, 'unwind': 2, 'timeout': {'quick': 250, 'thorough': 600}}]
