#!/usr/bin/env python3
"""seeded-change bookkeeping.
  seed.py verify <src_dir> <id> <property>   confirm a sub-agent's change in a scratch worktree and import it to seeded/<id>/
  seed.py run <id> [tier]                    apply seeded/<id>/patch.diff to /repo, run the property's check, undo
  seed.py runall [tier]
"""
import sys, os, json, subprocess, shutil, time
V = '/verif'
REPO = '/repo'

def sh(cmd, **kw):
    return subprocess.run(cmd, shell=isinstance(cmd, str), stdout=subprocess.PIPE, stderr=subprocess.STDOUT, text=True, errors='replace', **kw)

def verify(src, sid, prop):
    wt = '/tmp/sv_%s' % sid
    sh('git -C %s worktree remove --force %s' % (REPO, wt)); shutil.rmtree(wt, ignore_errors=True)
    r = sh('git -C %s worktree add -q --detach %s main' % (REPO, wt))
    assert r.returncode == 0, r.stdout
    log = {}
    try:
        demo = os.path.join(src, 'demo.sh')
        patch = os.path.join(src, 'patch.diff')
        extra = [f for f in os.listdir(src) if f not in ('patch.diff', 'demo.sh', 'NOTES.md')]
        r = sh('make -s 2>&1 | tail -3', cwd=wt)
        r = sh(['sh', demo, wt], cwd=src, timeout=600)
        log['demo_without'] = r.returncode
        r = sh(['git', 'apply', patch], cwd=wt)
        if r.returncode != 0:
            r = sh('patch -p1 < %s' % patch, cwd=wt)
        log['apply'] = r.returncode
        r = sh('make -s 2>&1 | tail -5', cwd=wt)
        log['build'] = r.stdout.strip()[-300:]
        r = sh("sed 's#/tmp/\\.neatvi#%s/.nv#g' test.sh > .t.sh && sh .t.sh | grep -c OK" % wt, cwd=wt)
        log['tests_ok'] = r.stdout.strip().split('\n')[-1]
        r = sh(['sh', demo, wt], cwd=src, timeout=600)
        log['demo_with'] = r.returncode
        log['demo_with_tail'] = r.stdout[-400:]
    finally:
        sh('git -C %s worktree remove --force %s' % (REPO, wt)); shutil.rmtree(wt, ignore_errors=True)
    ok = log.get('demo_without') == 0 and log.get('apply') == 0 and log.get('tests_ok') == '60' and log.get('demo_with') not in (0, None)
    print(sid, 'CONFIRMED' if ok else 'REJECTED', {k: v for k, v in log.items() if k != 'demo_with_tail'})
    if ok:
        d = os.path.join(V, 'seeded', sid)
        shutil.rmtree(d, ignore_errors=True)
        os.makedirs(d)
        for f in os.listdir(src):
            if os.path.isfile(os.path.join(src, f)):
                shutil.copy(os.path.join(src, f), d)
        notes = open(os.path.join(src, 'NOTES.md')).read() if os.path.exists(os.path.join(src, 'NOTES.md')) else ''
        json.dump({'id': sid, 'property': prop, 'source': 'independent sub-agent given only the property text and a scratch worktree',
                   'needs_to_manifest': notes[:1500],
                   'confirmed': {'base': sh('git -C %s rev-parse --short main' % REPO).stdout.strip(), 'builds': True, 'repo_tests_passing': 60,
                                 'demo_exit_without_change': log['demo_without'], 'demo_exit_with_change': log['demo_with'],
                                 'how': 'tools/seed.py verify: scratch worktree of /repo main, make, demo.sh; git apply patch.diff, make, test.sh (private tmp paths), demo.sh'},
                   'detected_by': None}, open(os.path.join(d, 'meta.json'), 'w'), indent=1)
    return ok

def run(sid, tier='quick', props=None):
    d = os.path.join(V, 'seeded', sid)
    meta = json.load(open(os.path.join(d, 'meta.json')))
    st = sh('git -C %s status --porcelain --untracked-files=no' % REPO).stdout.strip()
    assert not st, 'repo not clean: ' + st
    r = sh(['git', '-C', REPO, 'apply', os.path.join(d, 'patch.diff')])
    if r.returncode != 0:
        r = sh('patch -p1 < %s' % os.path.join(d, 'patch.diff'), cwd=REPO)
        assert r.returncode == 0, r.stdout
    res = {}
    try:
        for prop in (props or [meta['property']]):
            t0 = time.time()
            r = sh(['./check', prop, '--tier', tier], cwd=V)
            viol = [l for l in r.stdout.split('\n') if l.startswith('VIOLATION') or l.startswith('  violated')]
            res[prop] = {'exit': r.returncode, 'violations': viol[:6], 'wall_s': round(time.time() - t0)}
            print(sid, prop, tier, 'exit', r.returncode, 'in %ds' % (time.time() - t0))
            for l in viol[:6]:
                print('    ', l)
            if r.returncode not in (0, 1):
                print(r.stdout[-1500:])
    finally:
        sh('git -C %s checkout -- .' % REPO)
        sh('rm -f %s/*.orig %s/*.rej' % (REPO, REPO))
    meta.setdefault('runs', {})[tier] = res
    det = [p for p, x in res.items() if x['exit'] == 1]
    if det:
        meta['detected_by'] = sorted(set((meta.get('detected_by') or []) + ['%s %s' % (p, tier) for p in det]))
    json.dump(meta, open(os.path.join(d, 'meta.json'), 'w'), indent=1)
    return res

def run_wt(sid, tier='quick', props=None):
    """same as run, but on a scratch worktree (NEATVI_REPO) with scratch outputs, so that it can run beside other work"""
    d = os.path.join(V, 'seeded', sid)
    meta = json.load(open(os.path.join(d, 'meta.json')))
    wt = '/tmp/sw_%s' % sid
    sh('git -C %s worktree remove --force %s' % (REPO, wt)); shutil.rmtree(wt, ignore_errors=True)
    assert sh('git -C %s worktree add -q --detach %s main' % (REPO, wt)).returncode == 0
    res = {}
    try:
        r = sh(['git', 'apply', os.path.join(d, 'patch.diff')], cwd=wt)
        if r.returncode != 0:
            r = sh('patch -p1 < %s' % os.path.join(d, 'patch.diff'), cwd=wt)
            assert r.returncode == 0, r.stdout
        for prop in (props or [meta['property']]):
            t0 = time.time()
            r = sh(['./check', prop, '--tier', tier], cwd=V, env=dict(os.environ, NEATVI_REPO=wt, VERIF_SCRATCH=wt + '/.verif', VERIF_JOBS=os.environ.get('VERIF_JOBS', '8')))
            viol = [l for l in r.stdout.split('\n') if l.startswith('VIOLATION') or l.startswith('  violated')]
            res[prop] = {'exit': r.returncode, 'violations': viol[:6], 'wall_s': round(time.time() - t0), 'mode': 'worktree'}
            print(sid, prop, tier, 'exit', r.returncode, 'in %ds' % (time.time() - t0), '(worktree)')
            for l in viol[:4]:
                print('    ', l)
            inc = [l for l in r.stdout.split('\n') if l.startswith('INCONCLUSIVE')]
            for l in inc[:3]:
                print('    ', l[:300])
            if inc:
                res[prop]['inconclusive'] = len(inc)
            if r.returncode not in (0, 1):
                print(r.stdout[-1500:])
    finally:
        sh('git -C %s worktree remove --force %s' % (REPO, wt)); shutil.rmtree(wt, ignore_errors=True)
    meta = json.load(open(os.path.join(d, 'meta.json')))
    meta.setdefault('runs', {})[tier + '-worktree'] = res
    det = [p for p, x in res.items() if x['exit'] == 1]
    if det:
        meta['detected_by'] = sorted(set((meta.get('detected_by') or []) + ['%s %s' % (p, tier) for p in det]))
    json.dump(meta, open(os.path.join(d, 'meta.json'), 'w'), indent=1)
    return res

if __name__ == '__main__':
    if sys.argv[1] == 'runwt':
        run_wt(sys.argv[2], sys.argv[3] if len(sys.argv) > 3 else 'quick', sys.argv[4:] or None)
    if sys.argv[1] == 'verify':
        sys.exit(0 if verify(sys.argv[2], sys.argv[3], sys.argv[4]) else 1)
    if sys.argv[1] == 'run':
        run(sys.argv[2], sys.argv[3] if len(sys.argv) > 3 else 'quick', sys.argv[4:] or None)
    if sys.argv[1] == 'runall':
        for sid in sorted(os.listdir(os.path.join(V, 'seeded'))):
            if os.path.exists(os.path.join(V, 'seeded', sid, 'meta.json')):
                run(sid, sys.argv[2] if len(sys.argv) > 2 else 'quick')
