#!/usr/bin/env python3
"""print the markdown table of seeded changes and the checks that caught them (from seeded/*/meta.json)"""
import json, os, re, glob
rows = []
for d in sorted(glob.glob(os.path.join(os.path.dirname(__file__), '..', 'seeded', 'C*'))):
    mp = os.path.join(d, 'meta.json')
    if not os.path.exists(mp):
        continue
    m = json.load(open(mp))
    title = ''
    for fn in ('NOTES.md',):
        p = os.path.join(d, fn)
        if os.path.exists(p):
            for ln in open(p):
                if ln.startswith('#'):
                    title = re.sub(r'^#+\s*', '', ln.strip())
                    title = re.sub(r'^(C\d+\s*)?(/\s*(seed\s*)?\w\s*[:—-]+\s*|seed(ed change)?[^:—]*(:|—|--)\s*)', '', title, flags=re.I)
                    title = re.sub(r'^(Seed\s+\w+\s*(\([^)]*\))?\s*(--|:)\s*|-\s+)', '', title)
                    break
    caught = []
    for mode, runs in sorted(m.get('runs', {}).items()):
        for prop, r in sorted(runs.items()):
            if r.get('exit') == 1:
                jobs = sorted(set(re.findall(r'job=(\w+)', ' '.join(r.get('violations', [])))))
                caught.append('%s %s' % (prop, '/'.join(jobs)))
    caught = sorted(set(caught))
    rows.append((m['id'], title[:110], '; '.join(caught) if caught else '**not caught**'))
print('| seed | change | caught by (property job) |')
print('|---|---|---|')
for r in rows:
    print('| %s | %s | %s |' % r)
