#!/bin/sh
# run one tier of every claimed check in turn; prints one summary line per property
tier=${1:-quick}
cd "$(dirname "$0")/.."
for p in $(python3 -c "import json; print(' '.join(c['property_id'] for c in json.load(open('MANIFEST.json'))['checks']))"); do
	start=$(date +%s)
	./check $p --tier $tier > /tmp/run_tier_$p.log 2>&1
	rc=$?
	end=$(date +%s)
	echo "$p tier=$tier exit=$rc wall=$((end-start))s $(grep -c '^INCONCLUSIVE' /tmp/run_tier_$p.log) inconclusive, $(grep -c '^VIOLATION' /tmp/run_tier_$p.log) violations"
done
