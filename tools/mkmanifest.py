#!/usr/bin/env python3
"""regenerate MANIFEST.json from harness/jobs.py (claimed checks) and tools/na.json (not applicable)"""
import json, os, sys
V = os.path.dirname(os.path.dirname(os.path.abspath(__file__)))
sys.path.insert(0, os.path.join(V, 'harness'))
import jobs
props = [json.loads(l) for l in open(os.path.join(V, 'properties.jsonl'))]
na = json.load(open(os.path.join(V, 'tools', 'na.json'))) if os.path.exists(os.path.join(V, 'tools', 'na.json')) else {}
checks = []
notapp = []
for p in props:
    pid = p['id']
    if pid in jobs.JOBS and pid not in na:
        m = jobs.META.get(pid, {})
        b = m.get('bounds', {})
        checks.append({
            'property_id': pid,
            'quick_cmd': './check %s --tier quick' % pid,
            'thorough_cmd': './check %s --tier thorough' % pid,
            'evidence_file': 'evidence/%s.json' % pid,
            'replay_cmd_template': './check %s --replay {path}' % pid,
            'engine': 'symx',
            'level_claimed': {
                'category': 'model_checking',
                'text': m.get('level', 'Bounded, solver-decided: the real neatvi functions are executed symbolically (LLVM IR of the working tree); '
                              'every assertion and every path end is a z3 query over all inputs of that path class. Bounds: quick: %s; thorough: %s.'
                              % (b.get('quick', '?'), b.get('thorough', '?'))),
                'design_ref': 'DESIGN.md section 5, ' + pid,
            },
            'level_note': 'Outside the claim: %s. Assumed/trusted: %s' % (m.get('outside', '-'), '; '.join(m.get('assumptions', []) + jobs.COMMON_ASSUMPTIONS[:2])),
            'technique': m.get('technique', 'path-forking symbolic execution of the LLVM IR of the real code with z3 deciding every branch and assertion (bounded); native ASan replay of counterexamples'),
        })
    else:
        notapp.append({'property_id': pid, 'reason': na.get(pid, 'check not built yet in this session (work in progress; see DESIGN.md section 9)')})
man = {
    'version': 1,
    'setup_cmd': './check setup',
    'hooks': {'guard': 'NEATVI_VERIF', 'enable': 'all IR and native harness builds pass -DNEATVI_VERIF; no source hook exists, the tree is unmodified',
              'baseline_off_cmd': 'cd /repo && make -s && sh test.sh', 'source_commits': [], 'add_only': True},
    'engines': [
        {'name': 'symx', 'path': 'engine/symx.py', 'serves_properties': [c['property_id'] for c in checks],
         'kind_free_text': 'own path-forking symbolic executor over clang-14 LLVM IR of the real units, z3 back end, slices on 16 cores'},
        {'name': 'cbmc', 'path': '/usr/bin/cbmc', 'serves_properties': sorted(jobs.CBMC.keys()),
         'kind_free_text': 'CBMC 6.11 bounded model checking of leaf kernels (cross-check, with witness twins)'},
    ],
    'checks': checks,
    'not_applicable': notapp,
    'notes': 'See DESIGN.md. ./check <id> --tier quick|thorough; replay: ./check <id> --replay <file>.',
}
json.dump(man, open(os.path.join(V, 'MANIFEST.json'), 'w'), indent=1)
print('claimed', [c['property_id'] for c in checks], 'not applicable', [n['property_id'] for n in notapp])
