import sys
pid=sys.argv[1]
prop=open('/tmp/seedout_%s/PROPERTY.txt'%pid).read()
print(f"""You are helping test a verification effort for neatvi (aligrudi/neatvi), a small vi/ex editor written in C. Your job: produce realistic code changes ("seeded bugs") to neatvi that BREAK the property below while the code still compiles and the existing test-suite still passes.

Your private scratch git worktree of the neatvi source is /tmp/seed_{pid} (work ONLY there; never touch /repo or /verif, do not read anything under /verif). Write your deliverables to /tmp/seedout_{pid}/.

{prop}

What I need from you (two independent changes if you can manage, each in its own sub-directory /tmp/seedout_{pid}/a and /tmp/seedout_{pid}/b; one good one is better than two poor ones):

1. A small, realistic change to the neatvi sources (the kind of slip a maintainer could make in a refactor or "optimisation": an off-by-one, a wrong comparison, a dropped update, a mis-ordered statement, a boundary constant, a missing flag, two sites that each look fine alone...) such that the property above is violated. It must NOT be something ordinary use would expose at once: it should need something specific to manifest (a particular multi-step sequence of operations, an unusual input such as a multi-byte character / boundary length / particular count, a fault at a particular point, a particular history of undo/redo/saves, etc.).
2. It must still compile without new warnings-as-errors (`make -s` in the worktree) and must still pass the existing test-suite. IMPORTANT: the stock test.sh uses fixed paths /tmp/.neatvi1 and /tmp/.neatvi2 that other people are using concurrently, so run the tests like this:  cd /tmp/seed_{pid} && make -s && sed 's#/tmp/\\.neatvi#/tmp/seed_{pid}/.nv#g' test.sh > .t.sh && sh .t.sh   (all 60 must print OK).
3. A demonstration: a shell script demo.sh (it may compile a small C program against the neatvi object files, or drive the built ./vi binary with `./vi -s -e` for ex mode reading commands from stdin, or `./vi -v` for vi mode reading keystrokes from stdin, as test.sh does with EXINIT="" and output to /dev/null) that takes the path of a neatvi source tree as $1, builds it if needed, and exits 0 on the ORIGINAL tree and non-zero on the tree WITH your change. Verify both yourself (use `git stash` / `git diff > patch.diff` / `git checkout -- .` in your worktree to switch). Use only private temp paths under /tmp/seed_{pid}/ or mktemp.
4. Deliver in each sub-directory: patch.diff (output of `git diff` in the worktree, applies with `git apply` to the pristine tree), demo.sh, and NOTES.md saying: which clause of the property it breaks, what exactly is needed for it to manifest, and the commands you ran with their results (tests pass with the change; demo passes without, fails with).

Leave the worktree clean (git checkout -- . and remove untracked build products you created other than the normal .o/vi outputs) when you finish. Tools available: gcc/cc, clang-14 with sanitizers, gdb, valgrind, python3. There is no network. Reply at the end with a brief summary of each change (file, function, what it breaks, what triggers it).""")
